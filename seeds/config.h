/* src/config.h.  Generated from config.h.in by configure.  */
/* src/config.h.in.  Generated from configure.ac by autoheader.  */

/* Define to 1 if using 'alloca.c'. */
/* #undef C_ALLOCA */

/* Define to 1 if translation of program messages to the user's native
   language is requested. */
#define ENABLE_NLS 1

/* Define to 1 if you have 'alloca', as a function or macro. */
#define HAVE_ALLOCA 1

/* Define to 1 if <alloca.h> works. */
#define HAVE_ALLOCA_H 1

/* Define to 1 if you have the Mac OS X function
   CFLocaleCopyPreferredLanguages in the CoreFoundation framework. */
/* #undef HAVE_CFLOCALECOPYPREFERREDLANGUAGES */

/* Define to 1 if you have the Mac OS X function CFPreferencesCopyAppValue in
   the CoreFoundation framework. */
/* #undef HAVE_CFPREFERENCESCOPYAPPVALUE */

/* Define if the GNU dcgettext() function is already present or preinstalled.
   */
#define HAVE_DCGETTEXT 1

/* Define to 1 if you have the declaration of `__func__', and to 0 if you
   don't. */
#define HAVE_DECL___FUNC__ 1

/* Define to 1 if you have the <dlfcn.h> header file. */
#define HAVE_DLFCN_H 1

/* Define to 1 if you have the `dup2' function. */
#define HAVE_DUP2 1

/* Define to 1 if you have the `fork' function. */
#define HAVE_FORK 1

/* Define if the GNU gettext() function is already present or preinstalled. */
#define HAVE_GETTEXT 1

/* Define if you have the iconv() function and it works. */
/* #undef HAVE_ICONV */

/* Define to 1 if you have the <inttypes.h> header file. */
#define HAVE_INTTYPES_H 1

/* Define to 1 if you have the <libintl.h> header file. */
#define HAVE_LIBINTL_H 1

/* Define to 1 if you have the `m' library (-lm). */
#define HAVE_LIBM 1

/* Define to 1 if you have the <limits.h> header file. */
#define HAVE_LIMITS_H 1

/* Define to 1 if you have the <locale.h> header file. */
#define HAVE_LOCALE_H 1

/* Define to 1 if your system has a GNU libc compatible `malloc' function, and
   to 0 otherwise. */
#define HAVE_MALLOC 1

/* Define to 1 if you have the <malloc.h> header file. */
#define HAVE_MALLOC_H 1

/* Define to 1 if you have the `memset' function. */
#define HAVE_MEMSET 1

/* Define to 1 if you have the <minix/config.h> header file. */
/* #undef HAVE_MINIX_CONFIG_H */

/* Define to 1 if you have the <netinet/in.h> header file. */
#define HAVE_NETINET_IN_H 1

/* Define to 1 if you have the `pow' function. */
#define HAVE_POW 1

/* Define to 1 if you have the <pthread.h> header file. */
#define HAVE_PTHREAD_H 1

/* Define to 1 if your system has a GNU libc compatible `realloc' function,
   and to 0 otherwise. */
#define HAVE_REALLOC 1

/* Define to 1 if you have the `reallocarr' function. */
/* #undef HAVE_REALLOCARR */

/* Define to 1 if you have the `reallocarray' function. */
#define HAVE_REALLOCARRAY 1

/* Define to 1 if you have the `regcomp' function. */
#define HAVE_REGCOMP 1

/* Define to 1 if you have the <regex.h> header file. */
#define HAVE_REGEX_H 1

/* Define to 1 if you have the `setlocale' function. */
#define HAVE_SETLOCALE 1

/* Define to 1 if stdbool.h conforms to C99. */
#define HAVE_STDBOOL_H 1

/* Define to 1 if you have the <stdint.h> header file. */
#define HAVE_STDINT_H 1

/* Define to 1 if you have the <stdio.h> header file. */
#define HAVE_STDIO_H 1

/* Define to 1 if you have the <stdlib.h> header file. */
#define HAVE_STDLIB_H 1

/* Define to 1 if you have the `strcasecmp' function. */
#define HAVE_STRCASECMP 1

/* Define to 1 if you have the `strchr' function. */
#define HAVE_STRCHR 1

/* Define to 1 if you have the `strdup' function. */
#define HAVE_STRDUP 1

/* Define to 1 if you have the <strings.h> header file. */
#define HAVE_STRINGS_H 1

/* Define to 1 if you have the <string.h> header file. */
#define HAVE_STRING_H 1

/* Define to 1 if you have the `strtol' function. */
#define HAVE_STRTOL 1

/* Define to 1 if you have the <sys/stat.h> header file. */
#define HAVE_SYS_STAT_H 1

/* Define to 1 if you have the <sys/types.h> header file. */
#define HAVE_SYS_TYPES_H 1

/* Define to 1 if you have the <sys/wait.h> header file. */
#define HAVE_SYS_WAIT_H 1

/* Define to 1 if you have the <unistd.h> header file. */
#define HAVE_UNISTD_H 1

/* Define to 1 if you have the `vfork' function. */
#define HAVE_VFORK 1

/* Define to 1 if you have the <vfork.h> header file. */
/* #undef HAVE_VFORK_H */

/* Define to 1 if you have the <wchar.h> header file. */
#define HAVE_WCHAR_H 1

/* Define to 1 if `fork' works. */
#define HAVE_WORKING_FORK 1

/* Define to 1 if `vfork' works. */
#define HAVE_WORKING_VFORK 1

/* Define to 1 if the system has the type `_Bool'. */
#define HAVE__BOOL 1

/* Define to the sub-directory where libtool stores uninstalled libraries. */
#define LT_OBJDIR ".libs/"

/* Define to the m4 executable name. */
#define M4 "/usr/bin/m4"

/* Name of package */
#define PACKAGE "flex"

/* Define to the address where bug reports for this package should be sent. */
#define PACKAGE_BUGREPORT "flex-help@lists.sourceforge.net"

/* Define to the full name of this package. */
#define PACKAGE_NAME "the fast lexical analyser generator"

/* Define to the full name and version of this package. */
#define PACKAGE_STRING "the fast lexical analyser generator 2.6.4"

/* Define to the one symbol short name of this package. */
#define PACKAGE_TARNAME "flex"

/* Define to the home page for this package. */
#define PACKAGE_URL ""

/* Define to the version of this package. */
#define PACKAGE_VERSION "2.6.4"

/* If using the C implementation of alloca, define if you know the
   direction of stack growth for your system; otherwise it will be
   automatically deduced at runtime.
	STACK_DIRECTION > 0 => grows toward higher addresses
	STACK_DIRECTION < 0 => grows toward lower addresses
	STACK_DIRECTION = 0 => direction of growth unknown */
/* #undef STACK_DIRECTION */

/* Define to 1 if all of the C90 standard headers exist (not just the ones
   required in a freestanding environment). This macro is provided for
   backward compatibility; new code need not use it. */
#define STDC_HEADERS 1

/* Enable extensions on AIX 3, Interix.  */
#ifndef _ALL_SOURCE
# define _ALL_SOURCE 1
#endif
/* Enable general extensions on macOS.  */
#ifndef _DARWIN_C_SOURCE
# define _DARWIN_C_SOURCE 1
#endif
/* Enable general extensions on Solaris.  */
#ifndef __EXTENSIONS__
# define __EXTENSIONS__ 1
#endif
/* Enable GNU extensions on systems that have them.  */
#ifndef _GNU_SOURCE
# define _GNU_SOURCE 1
#endif
/* Enable X/Open compliant socket functions that do not require linking
   with -lxnet on HP-UX 11.11.  */
#ifndef _HPUX_ALT_XOPEN_SOCKET_API
# define _HPUX_ALT_XOPEN_SOCKET_API 1
#endif
/* Identify the host operating system as Minix.
   This macro does not affect the system headers' behavior.
   A future release of Autoconf may stop defining this macro.  */
#ifndef _MINIX
/* # undef _MINIX */
#endif
/* Enable general extensions on NetBSD.
   Enable NetBSD compatibility extensions on Minix.  */
#ifndef _NETBSD_SOURCE
# define _NETBSD_SOURCE 1
#endif
/* Enable OpenBSD compatibility extensions on NetBSD.
   Oddly enough, this does nothing on OpenBSD.  */
#ifndef _OPENBSD_SOURCE
# define _OPENBSD_SOURCE 1
#endif
/* Define to 1 if needed for POSIX-compatible behavior.  */
#ifndef _POSIX_SOURCE
/* # undef _POSIX_SOURCE */
#endif
/* Define to 2 if needed for POSIX-compatible behavior.  */
#ifndef _POSIX_1_SOURCE
/* # undef _POSIX_1_SOURCE */
#endif
/* Enable POSIX-compatible threading on Solaris.  */
#ifndef _POSIX_PTHREAD_SEMANTICS
# define _POSIX_PTHREAD_SEMANTICS 1
#endif
/* Enable extensions specified by ISO/IEC TS 18661-5:2014.  */
#ifndef __STDC_WANT_IEC_60559_ATTRIBS_EXT__
# define __STDC_WANT_IEC_60559_ATTRIBS_EXT__ 1
#endif
/* Enable extensions specified by ISO/IEC TS 18661-1:2014.  */
#ifndef __STDC_WANT_IEC_60559_BFP_EXT__
# define __STDC_WANT_IEC_60559_BFP_EXT__ 1
#endif
/* Enable extensions specified by ISO/IEC TS 18661-2:2015.  */
#ifndef __STDC_WANT_IEC_60559_DFP_EXT__
# define __STDC_WANT_IEC_60559_DFP_EXT__ 1
#endif
/* Enable extensions specified by ISO/IEC TS 18661-4:2015.  */
#ifndef __STDC_WANT_IEC_60559_FUNCS_EXT__
# define __STDC_WANT_IEC_60559_FUNCS_EXT__ 1
#endif
/* Enable extensions specified by ISO/IEC TS 18661-3:2015.  */
#ifndef __STDC_WANT_IEC_60559_TYPES_EXT__
# define __STDC_WANT_IEC_60559_TYPES_EXT__ 1
#endif
/* Enable extensions specified by ISO/IEC TR 24731-2:2010.  */
#ifndef __STDC_WANT_LIB_EXT2__
# define __STDC_WANT_LIB_EXT2__ 1
#endif
/* Enable extensions specified by ISO/IEC 24747:2009.  */
#ifndef __STDC_WANT_MATH_SPEC_FUNCS__
# define __STDC_WANT_MATH_SPEC_FUNCS__ 1
#endif
/* Enable extensions on HP NonStop.  */
#ifndef _TANDEM_SOURCE
# define _TANDEM_SOURCE 1
#endif
/* Enable X/Open extensions.  Define to 500 only if necessary
   to make mbstate_t available.  */
#ifndef _XOPEN_SOURCE
/* # undef _XOPEN_SOURCE */
#endif


/* Version number of package */
#define VERSION "2.6.4"

/* Define to 1 if `lex' declares `yytext' as a `char *' by default, not a
   `char[]'. */
#define YYTEXT_POINTER 1

/* Define to empty if `const' does not conform to ANSI C. */
/* #undef const */

/* Define to rpl_malloc if the replacement function should be used. */
/* #undef malloc */

/* Define as a signed integer type capable of holding a process identifier. */
/* #undef pid_t */

/* Define to rpl_realloc if the replacement function should be used. */
/* #undef realloc */

/* Define to `unsigned int' if <sys/types.h> does not define. */
/* #undef size_t */

/* Define as `fork' if `vfork' does not work. */
/* #undef vfork */
