"""C++ scanners that keep the stock LexerInput(), over a driver-controlled streambuf (csrc/vf_cxxstream.h).
Used by C10 (end-of-input / restart histories on streams) and C14 (read errors of the C++ input path)."""
import os, shutil, subprocess
from . import harness as H, build

SPEC = """%option c++ noyywrap
%{
static int vf_n_eof;
%}
%%
[a-z]+   return 1;
[ \\n]+   return 2;
.        return 3;
<<EOF>>  { vf_n_eof++; return 0; }
%%
#include "vf_cxxstream.h"
"""
VARIANTS = {"interactive": [], "batch": ["-B"], "full": ["-Cf"], "read": ["-Cr"]}


def run_variant(args):
    """args: (variant, mode argv) -> dict(lines, rc, err)"""
    variant, argv = args
    flex = build.get_flex()
    wd = H.mkscratch("cxxs")
    try:
        # vf_n_eof lives in the driver header (section 3); the EOF action reaches it through a forward-declared function
        spec = SPEC.replace("%{\nstatic int vf_n_eof;\n%}\n", "%{\nstatic int vf_n_eof_fwd(void);\n%}\n").replace("vf_n_eof++;", "vf_n_eof_fwd();")
        spec = spec.replace('#include "vf_cxxstream.h"', '#include "vf_cxxstream.h"\nstatic int vf_n_eof_fwd(void) { return ++vf_n_eof; }')
        open(os.path.join(wd, "s.l"), "w").write(spec)
        rc, out, err = H.run_flex(flex, VARIANTS[variant] + ["-o", "s.cc", "s.l"], wd)
        if rc != 0:
            return {"variant": variant, "argv": argv, "gen_error": err[-400:], "spec": spec}
        c = subprocess.run(["g++", "-w", "-O1", "-g", "-fsanitize=address,undefined", "-fno-sanitize-recover=undefined", "-I" + H.CSRC, "-I" + flex.incdir, "-o", "s.exe", "s.cc"],
                           cwd=wd, env=H.ENV, stdout=subprocess.PIPE, stderr=subprocess.PIPE, timeout=300)
        if c.returncode != 0:
            return {"variant": variant, "argv": argv, "cc_error": c.stderr.decode("latin-1")[-600:], "spec": spec}
        r = subprocess.run(["./s.exe"] + list(argv), cwd=wd, env=dict(H.ENV, ASAN_OPTIONS="detect_leaks=0"), stdin=subprocess.DEVNULL, stdout=subprocess.PIPE, stderr=subprocess.PIPE, timeout=600)
        return {"variant": variant, "argv": argv, "rc": r.returncode, "lines": r.stdout.decode("latin-1").splitlines(), "err": r.stderr.decode("latin-1")[-1500:], "spec": spec}
    except subprocess.TimeoutExpired:
        return {"variant": variant, "argv": argv, "timeout": True}
    finally:
        shutil.rmtree(wd, ignore_errors=True)


def judge(ck, res, sigprefix):
    """common handling; returns number of cases covered"""
    v = res["variant"]
    if res.get("timeout"):
        ck.violation("%s:%s:timeout" % (sigprefix, v), "C++ stream driver (%s, %s) did not terminate" % (v, res["argv"]))
        return 0
    if "gen_error" in res:
        ck.violation("%s:%s:gen" % (sigprefix, v), "flex failed on the C++ stream scanner (%s): %s" % (v, res["gen_error"]), files={"s.l": res["spec"]})
        return 0
    if "cc_error" in res:
        if "vf_cxxstream.h" in res["cc_error"]:
            ck.broken.append("C++ stream driver does not compile: " + res["cc_error"][-300:])
        else:
            ck.violation("%s:%s:compile" % (sigprefix, v), "C++ stream scanner (%s) does not compile: %s" % (v, res["cc_error"]), files={"s.l": res["spec"]})
        return 0
    cases = 0
    done = False
    for l in res["lines"]:
        if l.startswith("V "):
            kind = l.split()[1]
            ck.violation("%s:%s:%s" % (sigprefix, v, kind), "C++ scanner (%s tables/input mode), stock LexerInput over a std::istream: %s" % (v, l[2:]), files={"s.l": res["spec"]},
                         case={"argv": res["argv"], "variant": v})
        if l.startswith("DONE"):
            done = True
            for f in l.split():
                if f.startswith("cases="):
                    cases = int(f[6:])
    if not done or (res["rc"] not in (0, 1)) or "AddressSanitizer" in res["err"] or "runtime error" in res["err"]:
        ck.violation("%s:%s:crash" % (sigprefix, v), "C++ stream driver (%s, %s) ended abnormally rc=%s: %s" % (v, res["argv"], res["rc"], res["err"][-800:]), files={"s.l": res["spec"]})
    return cases
