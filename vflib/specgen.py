"""Bounded-exhaustive generators of pattern ASTs and rule sets."""
import itertools
from . import regex as R

A, B, NLc = R.lit('a'), R.lit('b'), R.lit(10)
ATOMS = [A, B, NLc, ('set', R.DOT), R.cset(b'ab'), ('set', frozenset(R.ALL - {ord('a')}))]
UNARY = [
    lambda x: R.star(x), lambda x: R.plus(x), lambda x: R.opt(x),
    lambda x: R.rep(x, 2, 2), lambda x: R.rep(x, 1, 2), lambda x: R.rep(x, 2, None),
]
_cache = {}


def asts_exact(k, atoms=None, unary=None):
    """All ASTs with exactly k operator nodes (cat/alt binary)."""
    atoms = ATOMS if atoms is None else atoms
    unary = UNARY if unary is None else unary
    key = (k, id(atoms), id(unary))
    if key in _cache:
        return _cache[key]
    if k == 0:
        res = list(atoms)
    else:
        res = []
        for x in asts_exact(k - 1, atoms, unary):
            for u in unary:
                res.append(u(x))
        for i in range(0, k):
            for x in asts_exact(i, atoms, unary):
                for y in asts_exact(k - 1 - i, atoms, unary):
                    res.append(R.cat(x, y))
                    res.append(R.alt(x, y))
    _cache[key] = res
    return res


def asts_upto(k, atoms=None, unary=None):
    out = []
    for i in range(k + 1):
        out += asts_exact(i, atoms, unary)
    return out


def chunks(xs, n):
    xs = list(xs)
    for i in range(0, len(xs), n):
        yield xs[i:i + n]


# A pool of overlapping patterns for rule-set pairs/triples (first-rule ties,
# longest match across rules, back-up).
def overlap_pool():
    a, b, nl = A, B, NLc
    ab = R.cset(b'ab')
    dot = ('set', R.DOT)
    return [
        a, b, R.cat(a, b), R.cat(a, a), R.cat(a, b, a), R.cat(a, b, b),
        R.plus(a), R.plus(b), R.plus(ab), ab, dot, R.plus(dot),
        R.cat(a, R.star(b)), R.cat(R.star(a), b), R.cat(a, R.opt(b)), R.cat(R.opt(a), b),
        R.alt(a, R.cat(a, b)), R.alt(R.cat(a, b), a), R.cat(a, R.star(ab), b), R.cat(a, R.plus(b), a),
        R.rep(a, 2, 3), R.rep(ab, 2, 2), R.cat(a, R.rep(b, 1, 2)), R.cat(R.plus(a), R.plus(b)),
        R.cat(ab, nl), nl, ('set', frozenset(R.ALL - {ord('a')})), R.cat(a, dot, a),
        R.cat(R.alt(a, b), R.alt(a, b), a), R.cat(a, b, R.star(R.cat(a, b))),
    ]
