"""Documented spellings of the pattern language with their meaning as ASTs.

Each entry: (text, ast, tag).  The meaning column is written from the
"Patterns" chapter of doc/flex.texi, not from flex's sources.
"""
import itertools
from . import regex as R

ALL = R.ALL


def S(*items):
    """set from bytes / ranges"""
    s = set()
    for it in items:
        if isinstance(it, int):
            s.add(it)
        elif isinstance(it, tuple):
            s.update(range(it[0], it[1] + 1))
        else:
            s.update(it.encode('latin-1') if isinstance(it, str) else it)
    return frozenset(s)


def rng(a, b):
    return (ord(a), ord(b))


POSIX = {
    "alnum": S(rng('0', '9'), rng('A', 'Z'), rng('a', 'z')),
    "alpha": S(rng('A', 'Z'), rng('a', 'z')),
    "blank": S(" \t"),
    "cntrl": S((0, 31), 127),
    "digit": S(rng('0', '9')),
    "graph": S((33, 126)),
    "lower": S(rng('a', 'z')),
    "print": S((32, 126)),
    "punct": S((33, 126)) - S(rng('0', '9'), rng('A', 'Z'), rng('a', 'z')),
    "space": S((9, 13), 32),
    "upper": S(rng('A', 'Z')),
    "xdigit": S(rng('0', '9'), rng('A', 'F'), rng('a', 'f')),
}


def cs(s):
    return ('set', frozenset(s))


def lits(s):
    return R.string(s)


def base_spellings():
    out = []
    # --- POSIX class expressions and their negations
    for name, st in sorted(POSIX.items()):
        out.append(("[[:%s:]]" % name, cs(st), "posix"))
        out.append(("[[:^%s:]]" % name, cs(ALL - st), "posix-neg"))
        out.append(("[^[:%s:]]" % name, cs(ALL - st), "posix-in-negated-class"))
    out.append(("[[:alpha:][:digit:]]", cs(POSIX["alnum"]), "posix-combo"))
    out.append(("[[:alpha:]0-9]", cs(POSIX["alnum"]), "posix-combo"))
    out.append(("[a-zA-Z0-9]", cs(POSIX["alnum"]), "range"))
    out.append(("[[:^alpha:][:digit:]_]", cs((ALL - POSIX["alpha"]) | POSIX["digit"] | S("_")), "posix-combo"))
    # --- ranges and negation
    out.append(("[xyz]", cs(S("xyz")), "class"))
    out.append(("[abj-oZ]", cs(S("ab", rng('j', 'o'), "Z")), "class"))
    out.append(("[^A-Z]", cs(ALL - S(rng('A', 'Z'))), "class"))
    out.append(("[^A-Z\\n]", cs(ALL - S(rng('A', 'Z'), 10)), "class"))
    out.append(("[\\x41-\\x43]", cs(S("ABC")), "class"))
    out.append(("[\\101-\\103]", cs(S("ABC")), "class"))
    out.append(("[\\0-\\x7f]", cs(S((0, 127))), "class"))
    out.append(("[\\x80-\\xff]", cs(S((128, 255))), "class"))
    # --- special positions inside a class
    out.append(("[-a]", cs(S("-a")), "class-special"))
    out.append(("[a-]", cs(S("-a")), "class-special"))
    out.append(("[]a]", cs(S("]a")), "class-special"))
    out.append(("[^]a]", cs(ALL - S("]a")), "class-special"))
    out.append(("[^-a]", cs(ALL - S("-a")), "class-special"))
    out.append(("[a^]", cs(S("a^")), "class-special"))
    out.append(("[*+?.|(){}/$<>\"]", cs(S("*+?.|(){}/$<>\"")), "class-special"))
    out.append(("[a\\]b]", cs(S("a]b")), "class-special"))
    out.append(("[a\\-c]", cs(S("a-c")), "class-special"))
    out.append(("[\\n\\t]", cs(S(10, 9)), "class-special"))
    # --- escapes
    for ch, v in (("a", 7), ("b", 8), ("f", 12), ("n", 10), ("r", 13), ("t", 9), ("v", 11)):
        out.append(("\\" + ch, R.lit(v), "escape"))
    out.append(("\\0", R.lit(0), "escape"))
    out.append(("\\123", R.lit(0o123), "escape"))
    out.append(("\\001", R.lit(1), "escape"))
    out.append(("\\377", R.lit(255), "escape"))
    out.append(("\\x2a", R.lit(0x2a), "escape"))
    out.append(("\\x2A", R.lit(0x2a), "escape"))
    out.append(("\\xff", R.lit(255), "escape"))
    out.append(("\\x7", R.lit(7), "escape"))
    for ch in "*.\"\\[]()/$^|?+<>-{}cqzAZ, ":
        out.append(("\\" + ch, R.lit(ord(ch)), "escape-literal"))
    out.append(("a\\123b", R.cat(R.lit('a'), R.lit(0o123), R.lit('b')), "escape"))
    out.append(("\\1234", R.cat(R.lit(0o123), R.lit('4')), "escape"))
    # --- quoted strings
    out.append(('"[xyz]\\"foo"', lits('[xyz]"foo'), "quote"))
    out.append(('"a*b+"', lits('a*b+'), "quote"))
    out.append(('"a\\nb"', lits('a\nb'), "quote"))
    out.append(('"/*"', lits('/*'), "quote"))
    out.append(('"a b"', lits('a b'), "quote"))
    out.append(('"{D}"', lits('{D}'), "quote"))
    # --- groups and options
    out.append(("(?:foo)", lits("foo"), "group"))
    out.append(("(?i:ab7)", R.cat(cs(S("aA")), cs(S("bB")), R.lit('7')), "opt-i"))
    out.append(("(?-i:ab)", lits("ab"), "opt-i"))
    out.append(("(?s:.)", cs(ALL), "opt-s"))
    out.append(("(?-s:.)", cs(ALL - S(10)), "opt-s"))
    out.append(("(?ix-s: a . b)", R.cat(cs(S("aA")), cs(ALL - S(10)), cs(S("bB"))), "opt-x"))
    out.append(("(?x:a  b)", lits("ab"), "opt-x"))
    out.append(("(?x:a\\ b)", lits("a b"), "opt-x"))
    out.append(('(?x:a" "b)', lits("a b"), "opt-x"))
    out.append(("(?x:a[ ]b)", lits("a b"), "opt-x"))
    out.append(("(?x:a\n    /* comment */\n    b\n    c)", lits("abc"), "opt-x"))
    out.append(("a(?# comment )b", lits("ab"), "comment"))
    out.append(("(?i:a(?-i:b)c)", R.cat(cs(S("aA")), R.lit('b'), cs(S("cC"))), "opt-i"))
    out.append(("(?i:[a-c])", cs(S("abcABC")), "opt-i"))
    out += [("(?i:%s)" % t, a, "opt-i-operator") for t, a in caseless_operator_forms()]
    out.append(("(?s:a.b)", R.cat(R.lit('a'), cs(ALL), R.lit('b')), "opt-s"))
    out.append(("(?s:[^a])", cs(ALL - S("a")), "opt-s"))
    # --- precedence
    out.append(("foo|bar*", R.alt(lits("foo"), R.cat(lits("ba"), R.star(R.lit('r')))), "precedence"))
    out.append(("foo|(bar)*x", R.alt(lits("foo"), R.cat(R.star(lits("bar")), R.lit('x'))), "precedence"))
    out.append(("(foo|bar)+", R.plus(R.alt(lits("foo"), lits("bar"))), "precedence"))
    out.append(("ab{3}", R.cat(R.lit('a'), R.rep(R.lit('b'), 3, 3)), "repeat-binding-flex"))
    out.append(("abc{1,3}", R.cat(lits("ab"), R.rep(R.lit('c'), 1, 3)), "repeat-binding-flex"))
    out.append(("a|b{2}", R.alt(R.lit('a'), R.rep(R.lit('b'), 2, 2)), "repeat-binding-flex"))
    out.append(("a{2,5}", R.rep(R.lit('a'), 2, 5), "repeat"))
    out.append(("a{2,}", R.rep(R.lit('a'), 2, None), "repeat"))
    out.append(("a{4}", R.rep(R.lit('a'), 4, 4), "repeat"))
    out.append(("(ab){2}c", R.cat(R.rep(lits("ab"), 2, 2), R.lit('c')), "repeat"))
    out.append(("a{1}b", lits("ab"), "repeat"))
    out.append(("foo|^bar", R.alt(lits("foo"), lits("^bar")), "caret-not-special"))
    out.append(("foo|(bar$)", R.alt(lits("foo"), lits("bar$")), "dollar-not-special"))
    out.append(("a^b", lits("a^b"), "caret-not-special"))
    out.append(("a$b", lits("a$b"), "dollar-not-special"))
    return out


def setop_classes():
    """Six classes (text, set) used for {-}/{+} pairs and triples."""
    return [
        ("[a-c]", S("abc")),
        ("[b-z]", S(rng('b', 'z'))),
        ("[^a]", ALL - S("a")),
        ("[[:digit:]x]", POSIX["digit"] | S("x")),
        ("[^b-y\\n]", ALL - S(rng('b', 'y'), 10)),
        ("[[:^alpha:]]", ALL - POSIX["alpha"]),
    ]


def setop_spellings(depth):
    """All left-associative {-}/{+} chains of `depth` operators over the six
    classes; empty results are left out (flex documents them as never
    matching; C17 looks at the warning)."""
    cls = setop_classes()
    out = []
    for combo in itertools.product(range(len(cls)), repeat=depth + 1):
        for ops in itertools.product("-+", repeat=depth):
            text, st = cls[combo[0]]
            for i, op in enumerate(ops):
                t2, s2 = cls[combo[i + 1]]
                text += "{%s}%s" % (op, t2)
                st = (st - s2) if op == "-" else (st | s2)
            if st:
                out.append((text, cs(st), "setop-%d" % depth))
    return out


DEFS = [("DG", "[0-9]"), ("AB", "a|b"), ("NAME", "[A-Z][A-Z0-9]*"), ("AorBs", "a|b+"), ("Q", '"x y"'),
        ("NEST", "{AB}c")]


def definition_spellings():
    d = POSIX["digit"]
    up = S(rng('A', 'Z'))
    upd = up | d
    return [
        ("{DG}+", R.plus(cs(d)), "definition"),
        ("{AB}c", R.cat(R.alt(R.lit('a'), R.lit('b')), R.lit('c')), "definition-parens"),
        ("x{AB}*", R.cat(R.lit('x'), R.star(R.alt(R.lit('a'), R.lit('b')))), "definition-parens"),
        ("foo{NAME}?", R.cat(lits("foo"), R.opt(R.cat(cs(up), R.star(cs(upd))))), "definition-parens"),
        ("{AorBs}{2}", R.rep(R.alt(R.lit('a'), R.plus(R.lit('b'))), 2, 2), "definition-parens"),
        ("{Q}z", lits("x yz"), "definition"),
        ("{NEST}d", R.cat(R.alt(R.lit('a'), R.lit('b')), lits("cd")), "definition-nested"),
        ("[{DG}]", cs(S("{DG}")), "definition-not-in-class"),
    ]


def fold(st):
    s = set(st)
    for c in list(st):
        if 65 <= c <= 90:
            s.add(c + 32)
        if 97 <= c <= 122:
            s.add(c - 32)
    return frozenset(s)


def caseless_spellings():
    """Under %option case-insensitive (manual: 'case and character ranges')."""
    out = [
        ("ab7", R.cat(cs(S("aA")), cs(S("bB")), R.lit('7')), "caseless"),
        ('"aB"', R.cat(cs(S("aA")), cs(S("bB"))), "caseless-quote"),
        ("[a-t]", cs(fold(S(rng('a', 't')))), "caseless-range-ok"),
        ("[A-T]", cs(fold(S(rng('A', 'T')))), "caseless-range-ok"),
        ("[S-W]", cs(fold(S(rng('S', 'W')))), "caseless-range-ok"),
        ("[[:upper:]]", cs(POSIX["alpha"]), "caseless-posix"),
        ("[[:lower:]]", cs(POSIX["alpha"]), "caseless-posix"),
        ("[[:alpha:]]", cs(POSIX["alpha"]), "caseless-posix"),
        ("[[:digit:]]", cs(POSIX["digit"]), "caseless-posix"),
        ("(?-i:ab)", lits("ab"), "caseless-off"),
        ("(?-i:[a-c])x", R.cat(cs(S("abc")), cs(S("xX"))), "caseless-off"),
        ("[^a]", cs(ALL - S("aA")), "caseless-negated"),
        ("\\x41", cs(S("aA")), "caseless-escape"),
    ]
    out += [(t, a, "caseless-operator") for t, a in caseless_operator_forms()]
    return out


def caseless_operator_forms():
    """Every operator applied to operands that begin with a cased letter (a caseless letter is an alternation of two
    states inside the generator, so operators that copy machines see a different shape) - round-4 seed C01-r4m3."""
    def ci(ch):
        return cs(S(ch.lower() + ch.upper()))
    a, b, c, q, x, y = (ci(ch) for ch in "abcqxy")
    dg = cs(S(rng('0', '9')))
    return [
        ("b{3}", R.rep(b, 3, 3)), ("ab{3}", R.cat(a, R.rep(b, 3, 3))), ("ab{2,3}c", R.cat(a, R.rep(b, 2, 3), c)),
        ("b{2,}", R.rep(b, 2, None)), ("(q[0-9]){2,}", R.rep(R.cat(q, dg), 2, None)), ("(x){2,3}y", R.cat(R.rep(x, 2, 3), y)),
        ("(ab|c){2}", R.rep(R.alt(R.cat(a, b), c), 2, 2)), ("(a|b){1,2}c", R.cat(R.rep(R.alt(a, b), 1, 2), c)),
        ("(ab){2}", R.rep(R.cat(a, b), 2, 2)), ("(ab?){2}", R.rep(R.cat(a, R.opt(b)), 2, 2)),
        ("(a*b){2}", R.rep(R.cat(R.star(a), b), 2, 2)), ("(a+){2}b", R.cat(R.rep(R.plus(a), 2, 2), b)),
        ("a{0,2}b", R.cat(R.rep(a, 0, 2), b)), ("b+c", R.cat(R.plus(b), c)), ("b*c", R.cat(R.star(b), c)), ("b?c", R.cat(R.opt(b), c)),
        ("a|b", R.alt(a, b)), ("(a|bc)+", R.plus(R.alt(a, R.cat(b, c)))), ('"ab"{2}', R.rep(R.cat(a, b), 2, 2)),
        ("[a-c]{2}", R.rep(cs(S("abcABC")), 2, 2)), ("a{2}{2}", R.rep(R.rep(a, 2, 2), 2, 2)),
    ]


def posix_repeat_spellings():
    """Under --posix / -l: the repeat operator binds weaker than concatenation."""
    return [
        ("ab{3}", R.rep(lits("ab"), 3, 3), "repeat-binding-posix"),
        ("abc{1,3}", R.rep(lits("abc"), 1, 3), "repeat-binding-posix"),
        ("a|bc{2}", R.alt(R.lit('a'), R.rep(lits("bc"), 2, 2)), "repeat-binding-posix"),
        ("a{2}", R.rep(R.lit('a'), 2, 2), "repeat"),
        ("(a|b){2}c", R.cat(R.rep(R.alt(R.lit('a'), R.lit('b')), 2, 2), R.lit('c')), "repeat"),
    ]
