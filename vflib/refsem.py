"""Reference semantics: pattern AST -> NFA -> DFA over a byte partition.

Independent of flex: Thompson construction + subset construction written from
the textbook definition.  DFA states carry the *set* of accepting rule ids.
"""
from . import regex as R


def partition(sets):
    """Coarsest partition of 0..255 such that every given set is a union of
    blocks.  Returns (cls[256], nclasses, representatives)."""
    sig = {}
    cls = [0] * 256
    sets = sorted(sets, key=lambda s: sorted(s))
    for b in range(256):
        key = tuple(b in s for s in sets)
        if key not in sig:
            sig[key] = len(sig)
        cls[b] = sig[key]
    reps = [[] for _ in sig]
    for b in range(256):
        reps[cls[b]].append(b)
    return cls, len(sig), reps


class NFA:
    def __init__(self):
        self.eps = []      # state -> list of states
        self.tr = []       # state -> list of (frozenset bytes, target)

    def new(self):
        self.eps.append([])
        self.tr.append([])
        return len(self.eps) - 1

    def build(self, ast):
        """returns (start, end)"""
        k = ast[0]
        if k == 'lit' or k == 'set':
            s, e = self.new(), self.new()
            self.tr[s].append((frozenset([ast[1]]) if k == 'lit' else ast[1], e))
            return s, e
        if k == 'cat':
            s, e = self.build(ast[1][0])
            for x in ast[1][1:]:
                s2, e2 = self.build(x)
                self.eps[e].append(s2)
                e = e2
            return s, e
        if k == 'alt':
            s, e = self.new(), self.new()
            for x in ast[1]:
                s2, e2 = self.build(x)
                self.eps[s].append(s2)
                self.eps[e2].append(e)
            return s, e
        if k == 'star':
            s, e = self.new(), self.new()
            s2, e2 = self.build(ast[1])
            self.eps[s] += [s2, e]
            self.eps[e2] += [s2, e]
            return s, e
        if k == 'plus':
            return self.build(R.cat(ast[1], R.star(ast[1])))
        if k == 'opt':
            s, e = self.new(), self.new()
            s2, e2 = self.build(ast[1])
            self.eps[s] += [s2, e]
            self.eps[e2].append(e)
            return s, e
        if k == 'rep':
            x, n, m = ast[1], ast[2], ast[3]
            parts = [x] * n
            if m is None:
                parts.append(R.star(x))
            else:
                parts += [R.opt(x)] * (m - n)
            if not parts:          # x{0,0}: the empty string
                s = self.new()
                return s, s
            if len(parts) == 1:
                return self.build(parts[0])
            return self.build(('cat', tuple(parts)))
        raise ValueError(k)

    def closure(self, states):
        seen = set(states)
        st = list(states)
        while st:
            q = st.pop()
            for t in self.eps[q]:
                if t not in seen:
                    seen.add(t)
                    st.append(t)
        return frozenset(seen)


class DFA:
    """trans[state][cls] -> state or -1; acc[state] -> sorted tuple of tags."""

    def __init__(self, cls, ncls, reps):
        self.cls, self.ncls, self.reps = cls, ncls, reps
        self.trans = []
        self.acc = []

    def run(self, data, start=0):
        """Yield (length, acc tuple) for every prefix that is accepted."""
        q = start
        out = []
        if self.acc[q]:
            out.append((0, self.acc[q]))
        for i, b in enumerate(data):
            q = self.trans[q][self.cls[b]]
            if q < 0:
                break
            if self.acc[q]:
                out.append((i + 1, self.acc[q]))
        return out

    def accepts(self, data):
        q = 0
        for b in data:
            q = self.trans[q][self.cls[b]]
            if q < 0:
                return False
        return bool(self.acc[q])

    def access_strings(self):
        """Shortest byte string reaching each state (by representative bytes)."""
        acc = {0: b""}
        order = [0]
        i = 0
        while i < len(order):
            q = order[i]
            i += 1
            for c in range(self.ncls):
                t = self.trans[q][c]
                if t >= 0 and t not in acc:
                    acc[t] = acc[q] + bytes([self.reps[c][0]])
                    order.append(t)
        return acc

    def live_states(self):
        """States from which some accepting state is reachable."""
        rev = [[] for _ in self.trans]
        for q, row in enumerate(self.trans):
            for t in row:
                if t >= 0:
                    rev[t].append(q)
        live = set(q for q in range(len(self.trans)) if self.acc[q])
        st = list(live)
        while st:
            q = st.pop()
            for p in rev[q]:
                if p not in live:
                    live.add(p)
                    st.append(p)
        return live


def build_dfa(tagged_asts, part=None, prune_dead=True):
    """tagged_asts: list of (tag, ast).  Union automaton; a DFA state's acc is
    the sorted tuple of tags whose pattern matches the string read so far."""
    if part is None:
        sets = set()
        for _, a in tagged_asts:
            R.sets_of(a, sets)
        part = partition(sets)
    cls, ncls, reps = part
    nfa = NFA()
    starts, ends = [], {}
    for tag, a in tagged_asts:
        s, e = nfa.build(a)
        starts.append(s)
        ends.setdefault(e, []).append(tag)
    d = DFA(cls, ncls, reps)
    init = nfa.closure(starts)
    index = {init: 0}
    work = [init]
    d.trans.append(None)
    d.acc.append(None)
    while work:
        S = work.pop()
        qi = index[S]
        tags = set()
        for q in S:
            if q in ends:
                tags.update(ends[q])
        d.acc[qi] = tuple(sorted(tags))
        row = []
        for c in range(ncls):
            b = reps[c][0]
            tgt = set()
            for q in S:
                for (bs, t) in nfa.tr[q]:
                    if b in bs:
                        tgt.add(t)
            if not tgt:
                row.append(-1)
                continue
            T = nfa.closure(tgt)
            if T not in index:
                index[T] = len(d.trans)
                d.trans.append(None)
                d.acc.append(None)
                work.append(T)
            row.append(index[T])
        d.trans[qi] = row
    if prune_dead:
        live = d.live_states()
        for q, row in enumerate(d.trans):
            for c, t in enumerate(row):
                if t >= 0 and t not in live:
                    row[c] = -1
        # renumber reachable states
        order = [0]
        seen = {0: 0}
        i = 0
        while i < len(order):
            q = order[i]
            i += 1
            for t in d.trans[q]:
                if t >= 0 and t not in seen:
                    seen[t] = len(order)
                    order.append(t)
        nt = [[(seen[t] if t >= 0 else -1) for t in d.trans[q]] for q in order]
        na = [d.acc[q] for q in order]
        d.trans, d.acc = nt, na
    return d


def matches(ast, data):
    return build_dfa([(0, ast)]).accepts(data)
