"""Build the flex under test from /repo's current working tree, out of tree.

Reproduces src/Makefile.am's bootstrap (mkskel -> bison -> stage0 with scan.c from the
system lex -> stage1scan.c -> flex -> stage2scan.c, cmp) in a scratch directory and
caches the result under /verif/.cache keyed by a hash of the sources.
"""
import hashlib, os, re, shutil, subprocess, sys, tempfile, fcntl, glob

VERIF = os.path.dirname(os.path.dirname(os.path.abspath(__file__)))
REPO = os.environ.get("VERIF_REPO", "/repo")
CACHE = os.path.join(VERIF, ".cache")
SCRATCH_ROOT = os.environ.get("VERIF_SCRATCH", "/var/tmp")

GENERATED = {"scan.c", "parse.c", "parse.h", "stage1scan.c", "stage2scan.c",
             "cpp-flex.h", "c99-flex.h", "go-flex.h", "config.h"}


class BuildError(Exception):
    def __init__(self, msg, log=""):
        Exception.__init__(self, msg)
        self.log = log


def source_files():
    src = os.path.join(REPO, "src")
    out = []
    for f in sorted(os.listdir(src)):
        if f in GENERATED:
            continue
        if re.search(r"\.(c|h|l|y|skl|sh|in)$", f):
            out.append(f)
    return out


def common_sources():
    """*.c / parse.y from COMMON_SOURCES in the working tree's Makefile.am."""
    txt = open(os.path.join(REPO, "src", "Makefile.am")).read()
    m = re.search(r"^COMMON_SOURCES\s*=\s*\\\n((?:[ \t]+\S+\s*\\?\n)+)", txt, re.M)
    names = re.findall(r"\S+", m.group(1).replace("\\", " ")) if m else []
    if not names:
        names = [f for f in source_files() if f.endswith((".c", ".y"))
                 and f not in ("libmain.c", "libyywrap.c")]
    return names


def version():
    try:
        t = open(os.path.join(REPO, "configure.ac")).read()
        m = re.search(r"AC_INIT\(\[[^\]]*\],\s*\[([0-9.]+)", t)
        if m:
            return m.group(1)
    except OSError:
        pass
    return "2.6.4"


def tree_hash():
    h = hashlib.sha256()
    src = os.path.join(REPO, "src")
    for f in source_files():
        h.update(f.encode() + b"\0")
        with open(os.path.join(src, f), "rb") as fh:
            h.update(fh.read())
        h.update(b"\0")
    for extra in (os.path.join(src, "config.h"), os.path.join(VERIF, "seeds", "scan.c"),
                  os.path.join(REPO, "configure.ac")):
        if os.path.exists(extra):
            with open(extra, "rb") as fh:
                h.update(fh.read())
    h.update(b"build-v4")
    return h.hexdigest()[:20]


FLAVOURS = {
    "plain": ["-O1", "-g0"],
    "asan": ["-O1", "-g", "-fsanitize=address,undefined", "-fno-omit-frame-pointer",
             "-fno-sanitize-recover=undefined"],
}


def _run(cmd, cwd, log, env=None, stdout=None):
    log.write("$ " + " ".join(cmd) + "\n")
    log.flush()
    p = subprocess.run(cmd, cwd=cwd, stdout=stdout or log, stderr=log, env=env)
    return p.returncode


def _build(dest, flavour):
    src = os.path.join(REPO, "src")
    work = tempfile.mkdtemp(prefix="flexverif.build.", dir=SCRATCH_ROOT)
    logp = os.path.join(dest, "build.log")
    os.makedirs(dest, exist_ok=True)
    env = dict(os.environ, LC_ALL="C")
    env.pop("M4", None)
    env.pop("POSIXLY_CORRECT", None)
    env["ASAN_OPTIONS"] = "detect_leaks=0"
    try:
        with open(logp, "w") as log:
            for f in source_files():
                shutil.copy2(os.path.join(src, f), os.path.join(work, f))
            cfg = os.path.join(src, "config.h")
            if not os.path.exists(cfg):
                cfg = os.path.join(VERIF, "seeds", "config.h")
            shutil.copy2(cfg, os.path.join(work, "config.h"))
            # stage 0 scanner: as src/Makefile does, from the current scan.l with the system's lex ($(LEX), flex 2.6.4 here), so
            # that scan.l and the generator's C files always agree; the frozen copy in seeds/ is the fallback without a system lex
            lex = shutil.which("flex") or shutil.which("lex")
            if lex:
                if _run([lex, "-o", "seedscan.c", "scan.l"], work, log, env) != 0:
                    raise BuildError("the system lex failed on scan.l")
            else:
                shutil.copy2(os.path.join(VERIF, "seeds", "scan.c"), os.path.join(work, "seedscan.c"))
            ver = version()
            for lang in ("cpp", "c99", "go"):
                with open(os.path.join(work, lang + "-flex.h"), "w") as out:
                    rc = _run(["sh", "./mkskel.sh", lang, ".", "m4", ver], work, log, env, stdout=out)
                if rc != 0:
                    raise BuildError("mkskel failed for " + lang)
                if os.path.getsize(os.path.join(work, lang + "-flex.h")) < 1000:
                    raise BuildError("mkskel produced an empty skeleton for " + lang)
            if _run(["bison", "-d", "-o", "parse.c", "parse.y"], work, log, env) != 0:
                raise BuildError("bison failed")
            cs = [f for f in common_sources() if f.endswith(".c")]
            cs.append("parse.c")
            cflags = ["-DHAVE_CONFIG_H", "-I.", '-DLOCALEDIR="/usr/local/share/locale"', "-w"] + FLAVOURS[flavour]
            procs = []
            for c in cs + ["seedscan.c"]:
                cmd = ["gcc"] + cflags + ["-c", c, "-o", c[:-2] + ".o"]
                log.write("$ " + " ".join(cmd) + "\n")
                procs.append((c, subprocess.Popen(cmd, cwd=work, stdout=log, stderr=log, env=env)))
            bad = [c for c, p in procs if p.wait() != 0]
            if bad:
                raise BuildError("compilation failed: " + " ".join(bad))
            objs = [c[:-2] + ".o" for c in cs]
            ldflags = FLAVOURS[flavour] + ["-lm"]
            if _run(["gcc", "-o", "stage0flex"] + objs + ["seedscan.o"] + ldflags, work, log, env) != 0:
                raise BuildError("stage0 link failed")
            with open(os.path.join(work, "stage1scan.c"), "w") as out:
                rc = _run(["./stage0flex", "-o", "scan.c", "-t", "scan.l"], work, log, env, stdout=out)
            if rc != 0:
                raise BuildError("stage0 flex failed on scan.l")
            if _run(["gcc"] + cflags + ["-c", "stage1scan.c", "-o", "stage1scan.o"], work, log, env) != 0:
                raise BuildError("stage1scan.c does not compile")
            if _run(["gcc", "-o", "flex"] + objs + ["stage1scan.o"] + ldflags, work, log, env) != 0:
                raise BuildError("flex link failed")
            with open(os.path.join(work, "stage2scan.c"), "w") as out:
                rc = _run(["./flex", "-o", "scan.c", "-t", "scan.l"], work, log, env, stdout=out)
            if rc != 0:
                raise BuildError("stage1 flex failed on scan.l")
            same = open(os.path.join(work, "stage1scan.c"), "rb").read() == \
                open(os.path.join(work, "stage2scan.c"), "rb").read()
            if not same:
                # The seed scanner (seeds/scan.c) was generated from an older scan.l.  When scan.l changes the way flex reads its
                # own input, stage 1 (read by the seed's lexer) may differ from stage 2 (read by the new lexer); the fixed point is
                # then one stage later.  Build flex from stage2scan.c, regenerate, and compare stage 2 with stage 3; that flex is
                # the one under test.
                if _run(["gcc"] + cflags + ["-c", "stage2scan.c", "-o", "stage2scan.o"], work, log, env) != 0:
                    raise BuildError("stage2scan.c does not compile")
                if _run(["gcc", "-o", "flex"] + objs + ["stage2scan.o"] + ldflags, work, log, env) != 0:
                    raise BuildError("flex link failed (stage 2)")
                with open(os.path.join(work, "stage3scan.c"), "w") as out:
                    rc = _run(["./flex", "-o", "scan.c", "-t", "scan.l"], work, log, env, stdout=out)
                if rc != 0:
                    raise BuildError("stage2 flex failed on scan.l")
                same = open(os.path.join(work, "stage2scan.c"), "rb").read() == open(os.path.join(work, "stage3scan.c"), "rb").read()
                shutil.copy2(os.path.join(work, "stage2scan.c"), os.path.join(work, "stage1scan.c"))
                shutil.copy2(os.path.join(work, "stage3scan.c"), os.path.join(work, "stage2scan.c"))
            for f in ("flex", "stage1scan.c", "stage2scan.c", "FlexLexer.h", "parse.h"):
                shutil.copy2(os.path.join(work, f), os.path.join(dest, f))
            # scanner-side library sources (libfl) for option probes
            for f in ("libmain.c", "libyywrap.c"):
                if os.path.exists(os.path.join(work, f)):
                    shutil.copy2(os.path.join(work, f), os.path.join(dest, f))
            with open(os.path.join(dest, "bootstrap_same"), "w") as fh:
                fh.write("1" if same else "0")
            with open(os.path.join(dest, "OK"), "w") as fh:
                fh.write("ok\n")
    except BuildError as e:
        e.log = logp
        raise
    finally:
        shutil.rmtree(work, ignore_errors=True)


class Flex:
    def __init__(self, d):
        self.dir = d
        self.exe = os.path.join(d, "flex")
        self.incdir = d  # FlexLexer.h lives here
        self.bootstrap_same = open(os.path.join(d, "bootstrap_same")).read().strip() == "1"


def get_flex(flavour="plain"):
    """Return a Flex for the current /repo working tree (built on demand)."""
    os.makedirs(CACHE, exist_ok=True)
    key = tree_hash() + "-" + flavour
    dest = os.path.join(CACHE, "flex-" + key)
    lockp = os.path.join(CACHE, "lock-" + key)
    with open(lockp, "w") as lk:
        fcntl.flock(lk, fcntl.LOCK_EX)
        if not os.path.exists(os.path.join(dest, "OK")):
            if os.path.exists(os.path.join(dest, "FAILED")):
                raise BuildError(open(os.path.join(dest, "FAILED")).read(), os.path.join(dest, "build.log"))
            shutil.rmtree(dest, ignore_errors=True)
            try:
                _build(dest, flavour)
            except BuildError as e:
                with open(os.path.join(dest, "FAILED"), "w") as fh:
                    fh.write(str(e))
                raise
            _prune()
    return Flex(dest)


def _prune(keep=12):
    ds = sorted(glob.glob(os.path.join(CACHE, "flex-*")), key=os.path.getmtime)
    for d in ds[:-keep]:
        shutil.rmtree(d, ignore_errors=True)
        try:
            os.unlink(os.path.join(CACHE, "lock-" + os.path.basename(d)[5:]))
        except OSError:
            pass


if __name__ == "__main__":
    import time
    t = time.time()
    try:
        f = get_flex(sys.argv[1] if len(sys.argv) > 1 else "plain")
    except BuildError as e:
        print("BUILD FAILED:", e, e.log)
        sys.exit(2)
    print(f.exe, "bootstrap_same=%s" % f.bootstrap_same, "%.1fs" % (time.time() - t))
