"""Independent reader of the documented serialized-tables file format
(manual, "Tables File Format").  Nothing here is taken from flex's sources."""
import struct

MAGIC = 0xF13C57B1
IDS = {1: "ACCEPT", 2: "BASE", 3: "CHK", 4: "DEF", 5: "EC", 6: "META", 7: "NUL_TRANS", 8: "NXT", 9: "RULE_CAN_MATCH_EOL",
       10: "START_STATE_LIST", 11: "TRANSITION", 12: "ACCLIST"}
DATA8, DATA16, DATA32, PTRANS, STRUCT = 1, 2, 4, 8, 16


class FormatError(Exception):
    pass


def pad8(n):
    return (n + 7) & ~7


def parse(data):
    """Returns a list of sets: dict(offset, hsize, ssize, flags, version, name, tables=[dict(id, flags, hilen, lolen, data=[...])]).
    Raises FormatError on anything that contradicts the documented layout."""
    sets = []
    off = 0
    if len(data) == 0:
        raise FormatError("empty file")
    while off < len(data):
        if len(data) - off < 14:
            raise FormatError("truncated header at %d" % off)
        magic, hsize, ssize, flags = struct.unpack(">IIIH", data[off:off + 14])
        if magic != MAGIC:
            raise FormatError("bad magic at %d: %#x" % (off, magic))
        if hsize % 8 or hsize < 16 or off + hsize > len(data):
            raise FormatError("bad th_hsize %d at %d" % (hsize, off))
        if ssize % 8 or ssize < hsize or off + ssize > len(data):
            raise FormatError("bad th_ssize %d at %d" % (ssize, off))
        hdr = data[off + 14:off + hsize]
        z1 = hdr.find(b"\0")
        if z1 < 0:
            raise FormatError("version not NUL-terminated")
        z2 = hdr.find(b"\0", z1 + 1)
        if z2 < 0:
            raise FormatError("name not NUL-terminated")
        version, name = hdr[:z1], hdr[z1 + 1:z2]
        if any(hdr[z2 + 1:]):
            raise FormatError("header padding is not NUL")
        if pad8(14 + z2 + 1) != hsize:
            raise FormatError("th_hsize %d does not match the header fields (%d)" % (hsize, pad8(14 + z2 + 1)))
        tables = []
        p = off + hsize
        end = off + ssize
        while p < end:
            if end - p < 12:
                raise FormatError("truncated table header at %d" % p)
            tid, tflags, hilen, lolen = struct.unpack(">HHII", data[p:p + 12])
            width = {DATA8: 1, DATA16: 2, DATA32: 4}.get(tflags & 7)
            if width is None:
                raise FormatError("table %d: td_flags %#x does not select exactly one element width" % (tid, tflags))
            if tflags & ~(7 | PTRANS | STRUCT):
                raise FormatError("table %d: unknown td_flags bits %#x" % (tid, tflags))
            if tid not in IDS:
                raise FormatError("unknown td_id %d" % tid)
            if (tflags & STRUCT) and tid != 11:
                raise FormatError("YYTD_STRUCT on table %s" % IDS[tid])
            if (tflags & PTRANS) and tid != 10:
                raise FormatError("YYTD_PTRANS on table %s" % IDS[tid])
            n = (hilen or 1) * lolen * (2 if tflags & STRUCT else 1)
            nbytes = n * width
            total = pad8(12 + nbytes)
            if p + total > end:
                raise FormatError("table %s runs past the end of its set" % IDS[tid])
            raw = data[p + 12:p + 12 + nbytes]
            fmt = {1: "b", 2: "h", 4: "i"}[width]
            vals = list(struct.unpack(">%d%s" % (n, fmt), raw)) if n else []
            if any(data[p + 12 + nbytes:p + total]):
                raise FormatError("table %s: padding is not NUL" % IDS[tid])
            tables.append(dict(id=tid, name=IDS[tid], flags=tflags, hilen=hilen, lolen=lolen, width=width, data=vals, offset=p, size=total))
            p += total
        if p != end:
            raise FormatError("tables do not fill th_ssize exactly")
        sets.append(dict(offset=off, hsize=hsize, ssize=ssize, flags=flags, version=version, name=name, tables=tables))
        off += ssize
    return sets


def semantic(sets):
    """What a loader may depend on: per set name, the decoded tables (ids, shapes, values).  Version text, th_flags
    ('currently unused') and padding are not part of it."""
    out = {}
    for s in sets:
        out[s["name"]] = [(t["id"], t["flags"] & (PTRANS | STRUCT), t["hilen"], t["lolen"], tuple(t["data"])) for t in s["tables"]]
    return out
