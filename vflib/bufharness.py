"""Spec and tables for the buffer / end-of-input history driver (csrc/vf_bufdriver.h)."""
from . import regex as R, harness as H

A, B, C_, NL = R.lit('a'), R.lit('b'), R.lit('c'), R.lit(10)


def _api_bits(api):
    only = "yyscanner" if api in ("R", "C99") else ""
    last = ", yyscanner" if api in ("R", "C99") else ""
    return only, last


def token_action(api, begin=None):
    only, last = _api_bits(api)
    s = "{ vf_body(); "
    if begin is not None:
        s += "yybegin(%s); vf_did_begin(%s, yystart()); " % (begin, begin)
    inp = "yyinput(%s)" % ("yyscanner" if api == "R" else "")
    line = "yyget_lineno(yyscanner)" if api == "C99" else "yylineno"
    s += "while (vf_action_input()) { int vf_c = %s; vf_did_input_b(vf_c, %s); } " % (inp, line)
    s += ("if (vf_action_push()) { yypush_buffer_state(yy_create_buffer((FILE *)(void *)&vf_fake_file[vf_action_src()], 16%s)%s); "
          "vf_action_pushed(); } return 1; }" % (last, last))
    return s


def eof_action(api, eid):
    only, last = _api_bits(api)
    cur = "yy_current_buffer(%s)" % (only if api == "C99" else "")
    setin = "yyin = (FILE *)(void *)&vf_fake_file[vf_eof_new_yyin()];"
    if api == "C99":
        setin = "yyset_in((FILE *)(void *)(vf_fake_file + vf_eof_new_yyin()), yyscanner);"
    return ("{ vf_body(); vf_eof_body(%d); switch (vf_eof_choice()) {\n"
            "  case 1: yypop_buffer_state(%s); vf_eof_did_pop(%s != 0); if (!%s) yyterminate(); break;\n"
            "  case 2: %s break;\n"
            "  case 3: return 2;\n"
            "  case 4: vf_eof_switch_saved(); break;\n"
            "  default: yyterminate(); } }" % (eid, only, cur, cur, setin))


SOURCES = [b"aab\nab", b"b\naa", b"ab", b"", b"a\nc\nab", b"cab\n"]
CONTENTS = [b"ab\na", b"a\0ba", b"b", b""]


def make_job(api, eof_assign, knobs, tag, sources=SOURCES, contents=CONTENTS, options=(), cdefs=(), flex_args=(), san=False):
    """eof_assign: list of (scs or None) in file order; each becomes an <<EOF>> rule with its own id.
    Conditions: INITIAL (inclusive), A (exclusive), B (inclusive)."""
    act = token_action(api)
    rules = [
        H.Rule(A, scs=None, bol=True, action=act),
        H.Rule(R.plus(A), scs=None, action=act), H.Rule(R.plus(B), scs=None, action=act), H.Rule(NL, scs='*', action=act),
        H.Rule(C_, scs=["INITIAL"], action=token_action(api, "A")), H.Rule(C_, scs=["A"], action=token_action(api, "B")),
        H.Rule(C_, scs=["B"], action=token_action(api, "INITIAL")),
        H.Rule(R.plus(R.cset(b"ab")), scs=["A"], action=act),
    ]
    order = ["INITIAL", "A", "B"]
    excl = {"INITIAL": False, "A": True, "B": False}
    eof_for = {c: -1 for c in order}
    explicit = set()
    for eid, scs in enumerate(eof_assign):
        if scs is not None:
            explicit.update(scs)
    for eid, scs in enumerate(eof_assign):
        rules.append(H.Rule(None, scs=scs, eof=True, action=eof_action(api, eid)))
        if scs is None:
            # an unqualified <<EOF>> applies to all conditions that have no <<EOF>> action of their own
            for c in order:
                if c not in explicit and eof_for[c] < 0:
                    eof_for[c] = eid
        else:
            for c in scs:
                if eof_for[c] < 0:
                    eof_for[c] = eid
    g = H.Group([("A", True), ("B", False)], rules, "INITIAL", b"ab", 0, label="buf:%s:%s" % (api, eof_assign))
    extra = []
    for i, s in enumerate(sources):
        extra.append(H._carr("vf_src_%d" % i, "unsigned char", list(s) or [0], 32))
    extra.append("static const struct { const unsigned char *d; int n; } vf_srcs[] = {%s};\n" % ",".join(
        "{vf_src_%d,%d}" % (i, len(s)) for i, s in enumerate(sources)))
    for i, s in enumerate(contents):
        extra.append(H._carr("vf_cont_%d" % i, "unsigned char", list(s), 32))
    extra.append("static const struct { const unsigned char *d; int n; } vf_contents[] = {%s};\n" % ",".join(
        "{vf_cont_%d,%d}" % (i, len(s)) for i, s in enumerate(contents)))
    extra.append("#define VF_NCONTENT %d\n" % len(contents))
    extra.append("static const int vf_eof_rule[] = {%s};\n" % ",".join(str(eof_for[c]) for c in order))
    kn = dict(knobs)
    kn.setdefault("VF_MAX_OPS", 3)
    opts = ["yywrap"] + list(options) + (["reentrant"] if api == "R" else [])
    return dict(groups=[g], tag=tag, api=api, options=opts, knobs=kn, driver="vf_bufdriver.h", extra_tables="".join(extra),
                prologue="#define VF_NSRC %d" % len(sources), cdefs=["VF_FAKE_FILES"] + list(cdefs), flex_args=list(flex_args), san=san,
                driver_args=["-H", "80"])


def run_jobs(ck, pid, jobs):
    """Run buffer-driver jobs for check `ck` of property `pid`; violations are reported, totals returned."""
    from .check import pmap
    tot = dict(executions=0, tokens=0, choice_points=0, nontrivial=0, reads=0, eof_actions=0, yywraps=0, horizons=0, inputs=0, input_eofs=0)
    calls = [0] * 13
    for job, res in pmap(H.run_groups_job, jobs, check=ck):
        if "worker_exception" in res:
            ck.broken.append("worker failed on %s: %s" % (job["tag"], res["worker_exception"]))
            continue
        if "build_failure" in res:
            bf = res["build_failure"]
            if H.harness_own_error(bf):
                ck.broken.append("harness does not compile (%s): %s" % (job["tag"], bf["stderr"][:400]))
            else:
                ck.violation("%s:%s-refused:%s" % (pid, bf["stage"], job["tag"]), "%s failed: %s" % (bf["stage"], bf["stderr"][-300:]),
                             files={"s.l": bf["spec"]}, case={"stderr": bf["stderr"]})
            continue
        sm = res["summary"]
        if sm is None:
            ck.violation("%s:driver-crash:%s" % (pid, job["tag"]), "harness scanner died (rc=%s): %s" % (res["rc"], (res["hard_error"] or res["stderr"])[-300:]),
                         files={"s.l": res.get("spec", ""), "s_tables.h": res.get("tables", "")}, case={"stderr": res["stderr"]})
            continue
        for k in tot:
            tot[k] += sm.get(k, 0)
        for i, n in enumerate(sm.get("calls", [])):
            calls[i] += n
        if sm.get("overflow") or sm.get("aborted") or sm.get("timed_out"):
            ck.exhaustive = False
        for v in res["viols"]:
            ck.violation("%s:%s:%s" % (pid, job["tag"], v.get("what", v.get("msg", v["viol"]))),
                         "[%s] history '%s': %s (expected %s, observed %s, condition %s)" % (
                             job["tag"], v.get("history"), v.get("what", v.get("msg")), v.get("exp"), v.get("obs"), v.get("sc")),
                         case={"cmd": v["cmd"], "viol": {k: v[k] for k in v if k not in ("spec", "tables", "cmd")}},
                         files={"s.l": v["spec"], "s_tables.h": v["tables"]})
        ck.sample({"job": job["tag"], "executions": sm["executions"], "yyinput": sm.get("inputs", 0)})
    tot["calls"] = calls
    return tot
