"""C02 - behaviour is independent of table representation, API flavour and back end
(DESIGN.md section 2, C02): the full option lattice for a corpus of rule sets."""
import itertools
from .. import regex as R, harness as H, specgen
from ..check import Check, pmap
from .c01 import tc_strings

A, B, C_, NL, Z = R.lit('a'), R.lit('b'), R.lit('c'), R.lit(10), R.lit(0)
AB = R.cset(b'ab')
DOT = ('set', R.DOT)

TABLES = ["-Cem", "-Cm", "-Ce", "-C", "-Cf", "-Cfe", "-CF", "-CFe"]


def corpus(bits8, vartrail, L):
    """Rule sets chosen to touch every skeleton path; each lives in its own exclusive start condition."""
    gs = []

    def G(name, rules, alpha, extras=None, maxlen=L):
        rs = []
        for r in rules:
            kw = dict(r[1]) if len(r) > 1 else {}
            rs.append(H.Rule(r[0], scs=[name], **kw))
        tagged = [(i + 1, x.full_ast()) for i, x in enumerate(rs)]
        ex = tc_strings(tagged, 1500) if extras is None else extras
        if not bits8:
            ex = [e for e in ex if all(b < 128 for b in e)]       # a 7-bit scanner is only defined on 7-bit input
        gs.append(H.Group([(name, True)], rs, name, alpha, maxlen, ex, label="corpus:" + name))

    # keywords + identifier: backing up, many states
    kws = ["if", "in", "int", "is", "else", "elif", "end", "do", "done", "for", "fi", "while", "when", "with"]
    ident = R.cat(R.cset(b"abcdefghijklmnopqrstuvwxyz_"), R.star(R.cset(b"abcdefghijklmnopqrstuvwxyz_0123456789")))
    G("KW", [(R.string(k),) for k in kws] + [(ident,), (R.plus(R.cset(b"0123456789")),), (R.plus(R.cset(b" \n")),)], b"ifn e\n0_", maxlen=3)
    G("BACKUP", [(R.cat(A, B),), (R.cat(A, B, B, B),), (A,), (B,)], b"ab\n")
    G("ANCHOR", [(R.plus(A), dict(bol=True)), (R.cat(A, B), dict(eol=True)), (A,), (B,), (NL,)], b"ab\n")
    G("FIXTRAIL", [(R.plus(A), dict(trail=B)), (R.cat(A, B), dict(trail=R.cat(A, NL))), (R.cat(B, B), dict(trail=NL)), (A,), (B,), (NL,)], b"ab\n")
    if vartrail:
        G("VARTRAIL", [(R.plus(A), dict(trail=R.cat(R.plus(B), NL))), (A,), (B,), (NL,)], b"ab\n")
    G("CLASSES", [(R.plus(R.cset(b"abc")),), (('set', frozenset(R.ALL - set(b"abc\n")) if bits8 else frozenset(set(range(128)) - set(b"abc\n"))),),
                  (R.cat(C_, R.opt(NL)),)], b"abcx\n")
    # '|' actions: the rule shares the next rule's action (the generator closes the m4 quotes of an empty action itself)
    G("FALLTHRU", [(R.cat(A, B), dict(action="|")), (R.cat(B, A), dict(action="|")), (R.plus(A),), (B, dict(action="|")), (NL, dict(action="|")),
                   (R.cat(A, NL),)], b"ab\n")
    G("NUL", [(Z,), (R.cat(A, Z, B),), (R.plus(R.cset(b"a\0")),), (B,)], b"a\0b")
    if bits8:
        G("HIGH", [(R.lit(0x80),), (R.cat(R.lit(0xff), R.lit(0xfe)),), (R.plus(('set', frozenset(range(0xc0, 0x100)))),), (A,)], bytes([0x80, 0xff, 0xfe, 0xc1, 97]))
    # a larger C-like rule set: sparse states for the table packers
    ops = ["+", "-", "*", "/", "=", "==", "!=", "<", "<=", ">", ">=", "&&", "||", "++", "--", "+=", "-=", "->", "(", ")", "{", "}", "[", "]", ";", ","]
    words = ["auto", "break", "case", "char", "const", "continue", "default", "do", "double", "else", "enum", "extern", "float", "for",
             "goto", "if", "int", "long", "register", "return", "short", "signed", "sizeof", "static", "struct", "switch", "typedef",
             "union", "unsigned", "void", "volatile", "while"]
    idc = R.cat(R.cset(b"abcdefghijklmnopqrstuvwxyz_ABCDEFGHIJKLMNOPQRSTUVWXYZ"), R.star(R.cset(b"abcdefghijklmnopqrstuvwxyz_ABCDEFGHIJKLMNOPQRSTUVWXYZ0123456789")))
    num = R.alt(R.plus(R.cset(b"0123456789")), R.cat(R.lit('0'), R.cset(b"xX"), R.plus(R.cset(b"0123456789abcdefABCDEF"))))
    strlit = R.cat(R.lit('"'), R.star(R.alt(('set', frozenset(set(range(1, 128)) - set(b'"\\\n'))), R.cat(R.lit('\\'), ('set', frozenset(range(1, 128)))))), R.lit('"'))
    rules = [(R.string(w),) for w in words] + [(R.string(o),) for o in ops] + [(idc,), (num,), (strlit,), (R.plus(R.cset(b" \t\n")),)]
    G("CLIKE", rules, b"a", maxlen=1)
    return gs


def points(quick):
    for tb, al, bits, mode, arr, api, tf in itertools.product(TABLES, (0, 1), (8, 7), ("-I", "-B"), (0, 1), ("NR", "R", "CXX", "C99"), (0, 1)):
        if tf and api in ("CXX", "C99"):
            continue          # serialized tables are documented for C scanners only (chapter "Serialized Tables")
        yield tb, al, bits, mode, arr, api, tf


def expected_refusal(tb, al, bits, mode, arr, api, tf):
    """Documented reasons for flex to refuse a point (None = must be supported)."""
    full = tb.startswith(("-Cf", "-CF"))
    if full and mode == "-I":
        return "full/fast tables cannot be interactive"
    if api == "CXX" and tb.startswith("-CF"):
        return "C++ scanners cannot use -CF"
    return None


def may_refuse(tb, al, bits, mode, arr, api, tf):
    """Points whose support the manual does not promise: a refusal with a message is accepted there."""
    if api == "C99":
        return True       # the c99 back end 'drops a lot of legacy interfaces'
    return False


def job_for(pt, L):
    tb, al, bits, mode, arr, api, tf = pt
    full = tb.startswith(("-Cf", "-CF"))
    gs = corpus(bits == 8, not full, L)
    fa = [tb + ("a" if al else ""), "-8" if bits == 8 else "-7", mode]
    opts = []
    if api == "R":
        opts.append("reentrant")
    if api == "CXX":
        opts.append("c++")
    if arr:
        opts.append("array")
    cdefs = ["VF_ARRAY"] if arr and api != "CXX" else []
    if tf:
        opts.append('tables-file="s.tables"')
        cdefs.append('VF_TABLES_FILE="s.tables"')
    tag = "%s%s/%d/%s/%s/%s/%s" % (tb, "a" if al else "", bits, mode, "array" if arr else "pointer", api, "file" if tf else "code")
    knobs = {"VF_BUFSIZES": "0,3" if full else "0", "VF_READ_ONE": 2}
    if al:
        # the aligned half of the lattice also keeps a line count: an action side effect that must not depend on the point either
        opts.append("yylineno")
        knobs["VF_CHECK_LINENO"] = 1
        tag += "/yylineno"
    return dict(groups=gs, options=opts, api=api, cdefs=cdefs, flex_args=fa, knobs=knobs, tag=tag,   # variable trailing context cannot grow its buffer
                point=pt, driver_args=["-H", "400"])


# ---- documented refusals (manual: options -Cf/-CF/-Cm/-I/-l/-+/--reentrant/--bison-bridge, trailing context, REJECT) ----
BASIC = "%option noyywrap\n%%\na  { }\n%%\n"
VART = "%option noyywrap\n%%\n[a-z]+/[0-9]+x  { }\n%%\n"
REJ = "%option noyywrap\n%%\na  { yyreject(); }\nab { }\n%%\n"
REFUSALS = [
    ("variable trailing context with full tables", VART, ["-Cf"]), ("variable trailing context with full tables", VART, ["-Cfe"]),
    ("variable trailing context with fast tables", VART, ["-CF"]), ("variable trailing context with fast tables", VART, ["-CFe"]),
    ("variable trailing context with -f", VART, ["-f"]), ("variable trailing context with -F", VART, ["-F"]),
    ("REJECT with full tables", REJ, ["-Cf"]), ("REJECT with fast tables", REJ, ["-CF"]),
    ("-Cf with -Cm", BASIC, ["-Cfm"]), ("-CF with -Cm", BASIC, ["-CFm"]), ("-Cf with -CF", BASIC, ["-CfF"]),
    ("-Cf with -I", BASIC, ["-Cf", "-I"]), ("-CF with -I", BASIC, ["-CF", "-I"]),
    ("-l with -+", BASIC, ["-l", "-+"]), ("-l with -f", BASIC, ["-l", "-f"]), ("-l with -F", BASIC, ["-l", "-F"]),
    ("-l with -Cf", BASIC, ["-l", "-Cf"]), ("-l with --reentrant", BASIC, ["-l", "--reentrant"]),
    ("-+ with -CF", BASIC, ["-+", "-CF"]), ("-+ with --reentrant", BASIC, ["-+", "--reentrant"]),
    ("-+ with --bison-bridge", BASIC, ["-+", "--bison-bridge"]),
]
ACCEPTED = [   # the same specs must be accepted where the manual allows them
    ("variable trailing context, compressed", VART, ["-Cem"]), ("REJECT, compressed", REJ, ["-Ce"]),
    ("-Cf alone", BASIC, ["-Cf"]), ("-CF alone", BASIC, ["-CF"]), ("-+ alone", BASIC, ["-+"]), ("-l alone", BASIC, ["-l"]),
]


def refusal_probe(args):
    import os, shutil, subprocess
    exe, spec, fargs = args
    wd = H.mkscratch("c02r")
    try:
        open(os.path.join(wd, "r.l"), "w").write(spec)
        p = subprocess.run([exe] + fargs + ["-o", "r.c", "r.l"], cwd=wd, env=H.ENV, stdin=subprocess.DEVNULL,
                           stdout=subprocess.PIPE, stderr=subprocess.PIPE, timeout=60)
        return {"rc": p.returncode, "stderr": p.stderr.decode("latin-1")[-400:], "args": fargs}
    finally:
        shutil.rmtree(wd, ignore_errors=True)


# ---- a family of sizable rule sets for the table packers (tblcmp.c): sparse states, many equivalence classes ----
WORDS = ["auto", "break", "case", "char", "const", "continue", "default", "do", "double", "else", "enum", "extern", "float", "for", "goto",
         "if", "int", "long", "register", "return", "short", "signed", "sizeof", "static", "struct", "switch", "typedef", "union", "unsigned",
         "void", "volatile", "while", "begin", "end", "then", "elif", "fi", "esac", "done", "until", "select", "function", "in", "is", "not",
         "and", "or", "xor", "mod", "div", "var", "let", "fn", "impl", "trait", "match", "loop", "pub", "use", "mut"]
OPS = ["+", "-", "*", "/", "=", "==", "!=", "<", "<=", ">", ">=", "&&", "||", "++", "--", "+=", "-=", "->", "(", ")", "{", "}", "[", "]", ";",
       ",", ".", "..", "...", "::", ":", "?", "~", "^", "%", "<<", ">>", "<<=", ">>=", "|", "&", "!", "@", "#", "$"]


def packer_groups(n, start=0):
    gs = []
    for i in range(start, start + n):
        ws = [WORDS[(i * 7 + j * (3 + i % 5)) % len(WORDS)] for j in range(6 + i % 17)]
        os_ = [OPS[(i * 5 + j * (2 + i % 3)) % len(OPS)] for j in range(4 + i % 13)]
        seen, rules = set(), []
        for t in ws + os_:
            if t not in seen:
                seen.add(t)
                rules.append(R.string(t))
        lo = b"abcdefghijklmnopqrstuvwxyz"
        idset = set(lo[: 8 + i % 19]) | ({ord('_')} if i % 2 else set()) | (set(b"ABCDEFGH"[: i % 9]))
        idrest = idset | set(b"0123456789"[: 1 + i % 10])
        rules.append(R.cat(('set', frozenset(idset)), R.star(('set', frozenset(idrest)))))
        rules.append(R.plus(R.cset(b"0123456789"[: 2 + i % 9])))
        if i % 3 == 0:
            rules.append(R.cat(R.lit('"'), R.star(('set', frozenset(set(range(32, 127)) - {34, 92}))), R.lit('"')))
        if i % 4 == 1:
            rules.append(R.cat(R.lit('/'), R.lit('/'), R.star(('set', frozenset(set(range(1, 128)) - {10})))))
        rules.append(R.plus(R.cset(b" \t\n")))
        name = "P%d" % i
        rs = [H.Rule(a, scs=[name]) for a in rules]
        tagged = [(k + 1, x.full_ast()) for k, x in enumerate(rs)]
        gs.append(H.Group([(name, True)], rs, name, b"a", 0, [e for e in tc_strings(tagged, 2500) if all(b < 128 for b in e)],
                          label="packer:%d" % i))
    return gs


def run(tier):
    ck = Check("C02", tier, "exploration")
    ck.flex()
    quick = tier == "quick"
    L = 3 if quick else 4
    jobs = [job_for(pt, L) for pt in points(quick)]
    # table packers: each sizable rule set alone in its own specification (equivalence classes and table layout are global),
    # in the representations built by tblcmp.c/gen.c's different packers
    npack = 120 if quick else 600
    for g in packer_groups(npack):
        for tb in ("-CFe", "-CF", "-Cfe", "-Cem", "-Cm"):
            if quick and tb in ("-Cem", "-Cm") and int(g.label.split(":")[1]) % 3:
                continue
            jobs.append(dict(groups=[g], options=[], api="NR", cdefs=[], flex_args=[tb, "-8"], knobs={"VF_BUFSIZES": "0"},
                             tag="packer%s/%s" % (tb, g.label.split(":")[1]), point=(tb, 0, 8, "-B", 0, "NR", 0), driver_args=["-H", "4000"],
                             packer=True))
    # wide tables: scanners whose yy_nxt/yy_chk (no equivalence classes, many sparse states) and whose yy_acclist (REJECT tables, many rules
    # per accepting state) outgrow 16 bits while the number of states does not - the entries of yy_base and yy_accept index into those tables
    wide = packer_groups(40 if quick else 90, start=1000)
    jobs.append(dict(groups=wide, options=[], api="NR", cdefs=[], flex_args=["-C", "-8"], knobs={"VF_BUFSIZES": "0"}, tag="wide-nxt/-C",
                     point=("-C", 0, 8, "-B", 0, "NR", 0), driver_args=["-H", "4000"], wide="yy_nxt"))
    lo = R.cset(b"abcdefghijklmnopqrstuvwxyz")
    wr = [H.Rule(R.plus(lo), scs=["WA"]) for _ in range(300)] + [H.Rule(R.cat(R.rep(lo, k, k), R.lit(ord("0"))), scs=["WA"]) for k in range(1, 120)]
    wex = [b"a" * k for k in (1, 2, 3, 50, 100, 109, 110, 111, 118, 119, 120, 121, 130)] + [b"b" * k + b"0" for k in (1, 60, 108, 109, 110, 119, 120)] + [b"ab0c", b"0", b"a0a0"]
    jobs.append(dict(groups=[H.Group([("WA", True)], wr, "WA", b"a0", 3, wex, label="wide:acclist")], options=["reject"], api="NR", cdefs=[], flex_args=["-8"],
                     knobs={"VF_BUFSIZES": "0"}, tag="wide-acclist/reject", point=("-Cem", 0, 8, "-B", 0, "NR", 0), driver_args=["-H", "4000"], wide="yy_acclist"))
    # a class shared by NUL and ordinary characters, for 1..10 equivalence classes, in every table representation that keeps classes
    # (the full tables get or do not get a separate NUL table depending on where NUL's class falls) - round-2 seed C02-r2m1
    from .c04 import shared_class_groups
    for tb in ("-Cfe", "-Cfae", "-CFe", "-CFae", "-Cem", "-Ce", "-Cae"):
        for extra, g in shared_class_groups():
            jobs.append(dict(groups=[g], options=[], api="NR", cdefs=[], flex_args=[tb, "-8"], knobs={"VF_BUFSIZES": "0,2"}, tag="nul-shared%s/+%d" % (tb, extra),
                             point=(tb, 0, 8, "-B", 0, "NR", 0), driver_args=["-H", "400"]))
    # fast tables wider than 16 bits: yy_transition with more than 32767 entries but fewer states (offset type) - round-2 seed C02-r2m3
    jobs.append(dict(groups=packer_groups(20 if quick else 40, start=2000), options=[], api="NR", cdefs=[], flex_args=["-CF", "-8"], knobs={"VF_BUFSIZES": "0"},
                     tag="wide-transition/-CF", point=("-CF", 0, 8, "-B", 0, "NR", 0), driver_args=["-H", "4000"], wide="yy_transition"))
    ran = refused_ok = 0
    execs = nontriv = 0
    cfg_behaving = set()
    for job, res in pmap(H.run_groups_job, jobs, check=ck):
        pt = job["point"]
        tag = job["tag"]
        if "worker_exception" in res:
            ck.broken.append("worker failed on %s: %s" % (tag, res["worker_exception"]))
            continue
        if "build_failure" in res:
            bf = res["build_failure"]
            if H.harness_own_error(bf):
                ck.broken.append("harness does not compile (%s): %s" % (tag, bf["stderr"][:400]))
                continue
            why = expected_refusal(*pt)
            if bf["stage"] == "flex":
                if not bf["stderr"].strip():
                    ck.violation("C02:refused-silently:" + tag, "flex exited %s without a message for %s" % (bf["rc"], tag), case={"flex_args": job["flex_args"]},
                                 files={"s.l": bf["spec"]})
                elif "m4:" in bf["stderr"] and not why:
                    # a refusal is a diagnostic of flex about the combination; an error of the m4 pass over the generated text is a
                    # generator malfunction whatever the back end
                    ck.violation("C02:m4-failure:%s" % pt[5], "the m4 pass failed for %s: %s" % (tag, bf["stderr"].strip().splitlines()[-1]),
                                 case={"flex_args": job["flex_args"], "stderr": bf["stderr"]}, files={"s.l": bf["spec"]})
                elif why or may_refuse(*pt):
                    refused_ok += 1
                else:
                    ck.violation("C02:refused-supported:" + tag, "flex refused a combination the manual documents as supported (%s): %s" % (
                        tag, bf["stderr"].strip().splitlines()[-1]), case={"flex_args": job["flex_args"], "stderr": bf["stderr"]}, files={"s.l": bf["spec"]})
            else:
                ck.violation("C02:does-not-compile:" + tag, "flex exited 0 but the scanner does not compile (%s): %s" % (tag, bf["stderr"][-400:]),
                             case={"flex_args": job["flex_args"], "stderr": bf["stderr"]}, files={"s.l": bf["spec"]})
            continue
        why = expected_refusal(*pt)
        if why:
            ck.violation("C02:not-refused:" + tag, "flex accepted %s although %s" % (tag, why), case={"flex_args": job["flex_args"]})
        sm = res["summary"]
        if sm is None:
            ck.violation("C02:driver-crash:" + tag, "scanner died in %s (rc=%s): %s" % (tag, res["rc"], (res["hard_error"] or res["stderr"])[-300:]),
                         files={"s.l": res.get("spec", ""), "s_tables.h": res.get("tables", "")}, case={"stderr": res["stderr"], "flex_args": job["flex_args"]})
            continue
        if job.get("wide"):
            import re as _re
            m = _re.search(r"%s\[(\d+)\]" % job["wide"], res.get("scanner_head", "") or "")
            size = int(m.group(1)) if m else -1
            ck.cov["wide_%s_entries" % job["wide"]] = size
            ck.guard(size > 32767, "the wide-table scanner %s has only %d %s entries" % (tag, size, job["wide"]))
        ran += 1
        execs += sm["executions"]
        nontriv += sm["nontrivial"]
        cfg_behaving.add(tag)
        for v in res["viols"]:
            ck.violation("C02:%s:%s:%s" % (tag, v["label"], v.get("what", v.get("msg", v["viol"]))),
                         "%s in %s: input %s bufsize %s: %s (expected rule %s len %s, observed rule %s len %s)" % (
                             v["label"], tag, v.get("input"), v.get("bufsize"), v.get("what", v.get("msg")),
                             v.get("exp_rule"), v.get("exp_len"), v.get("obs_rule"), v.get("obs_len")),
                         case={"cmd": v["cmd"], "viol": {k: v[k] for k in v if k not in ("spec", "tables", "cmd")}},
                         files={"s.l": v["spec"], "s_tables.h": v["tables"]})
        if len(ck.samples) < 12 and ran % 40 == 1:
            ck.sample({"point": tag, "executions": sm["executions"], "tokens": sm["tokens"]})
    # the same multiple-buffer history in every API flavour / back end: sources pushed from actions, popped by the caller or at their
    # end, switched and restarted - all histories with at most 2 (thorough 3) deviations on the buffer driver of C10/C11
    # (round-7 seed C02-r7m3: the c99 skeleton alone forgot to save a suspended buffer's fill state)
    from .. import bufharness as BH
    bdev = 2 if quick else 3
    bjobs = [BH.make_job(api, [None], {"VF_BUDGET_DEFAULT": bdev, "VF_BUDGET_TOTAL": bdev, "VF_CALLMASK": 0x1fff & ~(1 << 12), "VF_MAX_OPS": bdev,
                                       "VF_ACTION_PUSH": 1, **({"VF_READ_ONE": ro} if ro else {})}, "buffers-%s-%s" % (api, ro),
                         options=["noyyalloc", "noyyrealloc", "noyyfree"], cdefs=["VF_LEDGER"])
             for api in ("NR", "R", "C99") for ro in (None, 2)]
    bexec = 0
    for bj, r in pmap(H.run_groups_job, bjobs, check=ck):
        if "worker_exception" in r or "build_failure" in r or r.get("summary") is None:
            ck.broken.append("buffer-history job %s did not run: %s" % (bj["tag"], str(r.get("worker_exception") or r.get("build_failure") or r.get("stderr"))[:300]))
            continue
        bexec += r["summary"].get("executions", 0)
        for v in r["viols"]:
            ck.violation("C02:buffer-history:%s:%s" % (bj["api"], v.get("what", v.get("msg", v["viol"]))),
                         "%s: history '%s': %s (expected %s, observed %s)" % (bj["tag"], v.get("history"), v.get("what", v.get("msg")), v.get("exp"), v.get("obs")),
                         case={"cmd": v["cmd"], "viol": {k: v[k] for k in v if k not in ("spec", "tables", "cmd")}}, files={"s.l": v["spec"], "s_tables.h": v["tables"]})
    ck.cov["buffer_history_executions"] = bexec
    ck.guard(bexec > 10000, "too few buffer histories: %d" % bexec)
    # serialized tables in a file that holds several scanners' sets (manual, "Serialized Tables": cat a.tables b.tables > all.tables):
    # each scanner must behave as with in-code tables wherever its set stands in the file (round-4 seed C02-r4m3)
    from . import c15
    concat = 0
    for cjob, r in pmap(c15.concat_scenario, [(tb, api) for tb in (("-Cem", "-Cfe", "-CF") if quick else ("-Cem", "-Ce", "-C", "-Cf", "-Cfe", "-CF", "-CFe"))
                                              for api in ("NR", "R")], check=ck):
        if "worker_exception" in r or "build_error" in r:
            ck.broken.append("concatenated-tables scenario %s failed to build: %s" % (cjob, str(r.get("worker_exception") or r.get("build_error"))[:300]))
            continue
        concat += r["counts"].get("concat_scans", 0)
        for kind, what in r["viol"]:
            ck.violation("C02:tables-file-concatenated:%s:%s/%s" % (kind, cjob[0], cjob[1]),
                         "scanner reading its tables from a file of several sets (%s %s): %s" % (cjob[0], cjob[1], what))
    ck.cov["concatenated_tables_scans"] = concat
    ck.guard(concat > 100, "too few scans with concatenated tables files: %d" % concat)
    flex = ck.flex()
    for what, spec, fargs in REFUSALS:
        r = refusal_probe((flex.exe, spec, fargs))
        ck.add("refusal_probes")
        if r["rc"] == 0:
            ck.violation("C02:not-refused:" + " ".join(fargs) + ":" + what, "flex accepted %s (%s), exit 0" % (what, " ".join(fargs)), case=r, files={"r.l": spec})
        elif not r["stderr"].strip():
            ck.violation("C02:refused-silently:" + " ".join(fargs), "flex refused %s without a message" % what, case=r, files={"r.l": spec})
    for what, spec, fargs in ACCEPTED:
        r = refusal_probe((flex.exe, spec, fargs))
        ck.add("refusal_probes")
        if r["rc"] != 0:
            ck.violation("C02:refused-supported:" + " ".join(fargs) + ":" + what, "flex refused %s: %s" % (what, r["stderr"]), case=r, files={"r.l": spec})
    ck.cov.update(evaluations=execs, distinct_nontrivial=nontriv, lattice_points=len(jobs), points_scanning=ran, points_refused_as_documented=refused_ok,
                  rule="every point of table{8} x align{2} x 7/8-bit x -I/-B x %pointer/%array x {C, reentrant C, C++ class, c99} x "
                       "{in-code, --tables-file for the C scanners} (768) for a corpus of 8-9 rule sets; supported points must compile and give the reference "
                       "token stream on every input of length <= L plus the transition cover of each rule set (2-byte reads, 3-byte and "
                       "default buffers); unsupported points must be refused with a message; non-trivial = input with >= 2 tokens from >= 2 rules")
    ck.assumptions += ["the c99 back end and C++ with serialized tables are accepted when refused with a message (the manual does not promise them)",
                       "variable trailing context is left out of full/fast-table points, 8-bit rule sets out of 7-bit points (refusals checked in C06/C04/C07)"]
    ck.cov["packer_rule_sets"] = npack
    ck.guard(ran > len(jobs) // 2, "fewer than half of the lattice points produced a running scanner (%d of %d)" % (ran, len(jobs)))
    return ck.finish()
