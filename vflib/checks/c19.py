"""C19 - every documented option has its documented effect, via the command line and %option alike
(DESIGN.md section 2, C19).  A table of options with executable predicates; bound 1: each option
alone in every spelling; bound 2: pairs of independent options keep both effects."""
import itertools, os, re, shutil, subprocess
from .. import harness as H, build
from ..check import Check, pmap

BODY = """abc     return 1;
[a-z]+  return 2;
\\n      return 3;
.       return 4;
"""
MAIN_NR = """
#include <stdio.h>
#include <string.h>
int main(void) { int t; while ((t = yylex()) > 0) printf("%d ", t); printf("end\\n"); return 0; }
"""


class Probe:
    """One generation of a probe scanner, plus helpers to compile / link / run it."""

    def __init__(self, flex, cli=(), pct=(), body=BODY, defs="", sect3="", top="", keep_wrap=False, outname="lex.yy.c", cxx=False):
        self.flex, self.cxx = flex, cxx
        self.wd = H.mkscratch("c19")
        L = []
        if not keep_wrap:
            L.append("%option noyywrap")
        for p in pct:
            L.append("%option " + p)
        if top:
            L.append(top)
        if defs:
            L.append("%{\n" + defs + "\n%}")
        L.append("%%")
        L.append(body.rstrip("\n"))
        L.append("%%")
        L.append(sect3)
        self.spec = "\n".join(L) + "\n"
        open(os.path.join(self.wd, "p.l"), "w").write(self.spec)
        p = subprocess.run([flex.exe] + list(cli) + ["p.l"], cwd=self.wd, env=H.ENV, stdin=subprocess.DEVNULL, stdout=subprocess.PIPE,
                           stderr=subprocess.PIPE, timeout=120)
        self.rc, self.stdout, self.stderr = p.returncode, p.stdout, p.stderr.decode("latin-1")
        self.outname = outname
        self.files = sorted(f for f in os.listdir(self.wd) if f != "p.l")
        op = os.path.join(self.wd, outname)
        self.src = open(op, errors="replace").read() if os.path.exists(op) else ""

    def close(self):
        shutil.rmtree(self.wd, ignore_errors=True)

    def read(self, name):
        p = os.path.join(self.wd, name)
        return open(p, errors="replace").read() if os.path.exists(p) else None

    def compile(self, extra_src=None, extra_name="m.c", cflags=(), link=True, src=None):
        cc = "g++" if self.cxx else "gcc"
        srcs = [src or self.outname]
        if extra_src is not None:
            open(os.path.join(self.wd, extra_name), "w").write(extra_src)
            srcs.append(extra_name)
        cmd = [cc, "-w", "-I" + self.flex.incdir, "-I."] + list(cflags)
        if link:
            cmd += ["-o", "p.exe"] + srcs
        else:
            cmd += ["-c"] + srcs[:1] + ["-o", "p.o"]
        p = subprocess.run(cmd, cwd=self.wd, env=H.ENV, stdout=subprocess.PIPE, stderr=subprocess.PIPE, timeout=120)
        return p.returncode == 0, p.stderr.decode("latin-1")

    def run(self, data=b"", args=()):
        p = subprocess.run(["./p.exe"] + list(args), cwd=self.wd, env=H.ENV, input=data, stdout=subprocess.PIPE, stderr=subprocess.PIPE, timeout=60)
        return p.returncode, p.stdout.decode("latin-1"), p.stderr.decode("latin-1")

    def nm(self, obj="p.o"):
        p = subprocess.run(["nm", obj], cwd=self.wd, stdout=subprocess.PIPE, stderr=subprocess.PIPE)
        out = []
        for l in p.stdout.decode().splitlines():
            f = l.split()
            if len(f) >= 2:
                out.append((f[-2], f[-1]))
        return out


def tokens_main(P, data, expect, sect3=MAIN_NR):
    ok, err = P.compile()
    if not ok:
        return "scanner does not compile: " + err[-300:]
    rc, out, err = P.run(data)
    if out.strip() != expect:
        return "on input %r the scanner printed %r, expected %r (stderr %r)" % (data, out.strip(), expect, err[-100:])
    return None


# ------------------------------------------------------------------ option table
# Each entry: name, spellings = [(cli args, %option lines)], probe keyword arguments, predicate(P) -> None | message
def OPTIONS():
    T = []

    def add(name, spellings, pred, **kw):
        T.append(dict(name=name, spellings=spellings, pred=pred, kw=kw))

    def gen_ok(P):
        if P.rc != 0:
            return "flex failed: rc=%s %s" % (P.rc, P.stderr[-200:])
        return None if P.src else "flex exited 0 but the expected output file %s was not written (files: %s)" % (P.outname, P.files)

    # --- file names
    def p_outfile(P):
        return gen_ok(P) or (None if "yylex" in P.src else "scanner not written to the named file")
    add("outfile", [(["-oX.c"], []), (["--outfile=X.c"], []), ([], ['outfile="X.c"'])], p_outfile, outname="X.c")

    def p_stdout(P):
        if P.rc != 0:
            return "flex failed: " + P.stderr[-200:]
        if b"yylex" not in P.stdout:
            return "scanner not written to standard output"
        if "lex.yy.c" in P.files:
            return "lex.yy.c written although the scanner was to go to standard output"
        return None
    add("stdout", [(["-t"], []), (["--stdout"], []), ([], ["stdout"])], p_stdout)

    def p_stdout_outfile(P):
        # manual, --outfile: "If you combine --outfile with the --stdout option, then the scanner is written to stdout but its
        # #line directives refer to the file FILE" (round-4 seed C19-r4m3)
        e = p_stdout(P)
        if e:
            return e
        if "X.c" in P.files:
            return "X.c written although the scanner was to go to standard output"
        import re as _re
        names = set(_re.findall(rb'(?m)^#line \d+ "([^"]*)"', P.stdout))
        if b"X.c" not in names:
            return "no #line directive of the scanner on standard output refers to the --outfile name (names: %s)" % sorted(names)
        if b"<stdout>" in names:
            return "#line directives name <stdout> although --outfile was given"
        if _re.search(rb'(?m)^#line 0 ', P.stdout):
            return "a '#line 0' placeholder of the generated code was not renumbered in the scanner on standard output"
        return None
    add("stdout+outfile", [(["-t", "-oX.c"], []), (["--stdout", "--outfile=X.c"], []), ([], ["stdout", 'outfile="X.c"']), (["-t"], ['outfile="X.c"']),
                           (["-oX.c"], ["stdout"])], p_stdout_outfile)

    def p_header(P):
        e = gen_ok(P)
        if e:
            return e
        if "H.h" not in P.files:
            return "header file not written"
        ok, err = P.compile("#include <stdio.h>\n#include \"H.h\"\nint main(void){ yybuffer b = yy_scan_string(\"abc\\n\"); int t = yylex(); printf(\"%d\\n\", t);"
                            " yy_delete_buffer(b); yylex_destroy(); return yyin != 0 && yyleng < 0; }\n")
        if not ok:
            return "a program using only the header's declarations does not compile/link: " + err[-300:]
        rc, out, err = P.run()
        return None if out.strip() == "1" else "program built against the header printed %r" % out
    add("header-file", [(["--header-file=H.h"], []), ([], ['header-file="H.h"'])], p_header)
    # the header declares the API, it does not repeat the user's own section-3 code (which would be defined twice in any program
    # that includes the header next to the scanner) - reported by a round-6 sub-agent about the unmodified tree
    add("header-file:section3", [(["--header-file=H.h"], []), ([], ['header-file="H.h"']), (["--header-file=H.h", "-R"], [])],
        lambda P: gen_ok(P) or ("section 3 user code is copied into the header" if "vf_sect3_helper" in (P.read("H.h") or "") else None),
        sect3="int vf_sect3_helper(int x) { return x + 1; }\n")

    def p_tablesfile(P):
        e = gen_ok(P)
        if e:
            return e
        if "T.tbl" not in P.files or os.path.getsize(os.path.join(P.wd, "T.tbl")) < 16:
            return "tables file not written"
        if re.search(r"yy_accept\[\d+\]\s*=\s*\{", P.src):
            return "the scanner still embeds yy_accept although --tables-file was given"
        return None
    add("tables-file", [(["--tables-file=T.tbl"], []), ([], ['tables-file="T.tbl"'])], p_tablesfile)

    TMAIN = """
#include <stdio.h>
int main(int argc, char **argv) {
    FILE *fp = fopen(argv[1], "rb"); int t;
    if (!fp) return 3;
    if (yytables_fload(fp) != 0) { puts("LOADFAIL"); return 4; }
    fclose(fp);
    yy_scan_string("abc de\\n");
    while ((t = yylex()) > 0) printf("%d ", t);
    printf("end\\n");
    yylex_destroy();
    yytables_destroy();
    return 0;
}
"""

    def p_tables_load(P):
        # manual, "Serialized Tables": the scanner reads its tables with yytables_fload(); several scanners' tables may be concatenated
        # in one file ("cat lex.a.tables lex.b.tables > all.tables") and each scanner finds its own set by name (seeds C19-r4m2, C02-r4m3)
        e = p_tablesfile(P)
        if e:
            return e
        ok, err = P.compile()
        if not ok:
            return "scanner does not compile: " + err[-300:]
        for k, pct in enumerate(('prefix="zz"', 'prefix="zz" yylineno', 'prefix="aa" reentrant')):
            open(os.path.join(P.wd, "q%d.l" % k), "w").write('%%option noyywrap %s tables-file="Z%d.tbl"\n%%%%\nx+ return 7;\nxyz/q return 8;\n.|\\n ;\n%%%%\n' % (pct, k))
            q = subprocess.run([P.flex.exe, "-o", "q%d.c" % k, "q%d.l" % k], cwd=P.wd, env=H.ENV, stdin=subprocess.DEVNULL, stdout=subprocess.PIPE, stderr=subprocess.PIPE, timeout=120)
            if q.returncode != 0:
                return "flex failed on the second scanner: " + q.stderr.decode("latin-1")[-200:]
        for order in (["T.tbl"], ["T.tbl", "Z0.tbl"], ["Z0.tbl", "T.tbl"], ["Z1.tbl", "T.tbl"], ["Z2.tbl", "T.tbl"], ["Z0.tbl", "Z1.tbl", "T.tbl", "Z2.tbl"],
                      ["Z1.tbl", "Z1.tbl", "Z0.tbl", "T.tbl"]):
            with open(os.path.join(P.wd, "all.tbl"), "wb") as f:
                for n in order:
                    f.write(open(os.path.join(P.wd, n), "rb").read())
            rc, out, err = P.run(args=["all.tbl"])
            if rc != 0 or out.strip() != "1 4 2 3 end":
                return "with the tables file made of %s the scanner printed %r rc=%s (expected '1 4 2 3 end') %s" % (order, out.strip(), rc, err[-150:])
        return None
    add("tables-file:load", [(["--tables-file=T.tbl"], []), ([], ['tables-file="T.tbl"']), (["--tables-file=T.tbl"], ["yylineno"]),
                             (["--tables-file=T.tbl", "-Cf"], []), (["--tables-file=T.tbl", "-CFe"], ["yylineno"])], p_tables_load, sect3=TMAIN)

    def p_backup(P):
        e = gen_ok(P)
        if e:
            return e
        t = P.read("lex.backup")
        return None if t and t.strip() else "lex.backup not written"
    add("backup", [(["-b"], []), (["--backup"], []), ([], ["backup"])], p_backup)

    def p_backup_full(P):
        e = gen_ok(P)
        t = P.read("lex.backup") or ""
        return e or (None if "State #" in t and "jam-transitions" in t else "lex.backup does not list the backing-up states of a -Cf scanner: %r" % t[:80])
    add("backup-states", [(["-b", "-Cf"], []), ([], ["backup", "full"])], p_backup_full, body="abc return 1;\n.|\\n return 2;\n")
    add("backup-none", [(["-b", "-Cf"], []), ([], ["backup", "full"])],
        lambda P: gen_ok(P) or (None if "No backing up" in (P.read("lex.backup") or "") else "lex.backup of a scanner without backing up does not say so"),
        body="a return 1;\n.|\\n return 2;\n")

    # --- behaviour
    add("case-insensitive", [(["-i"], []), (["--case-insensitive"], []), ([], ["case-insensitive"])],
        lambda P: gen_ok(P) or tokens_main(P, b"ABC\n", "1 3 end"), sect3=MAIN_NR)
    add("caseful-default", [([], [])], lambda P: gen_ok(P) or tokens_main(P, b"ABC\n", "4 4 4 3 end"), sect3=MAIN_NR)

    def p_lexcompat(P):
        e = gen_ok(P)
        if e:
            return e
        if not re.search(r"^#define YY_FLEX_LEX_COMPAT", P.src, re.M):
            return "YY_FLEX_LEX_COMPAT is not #define'd in the generated scanner"
        if not re.search(r"char yytext\[", P.src):
            return "yytext is not an array"
        return None
    add("lex-compat", [(["-l"], []), (["--lex-compat"], []), ([], ["lex-compat"])], p_lexcompat)

    COUNT = """#include <string.h>
static const char *vin = "abX"; static int vpos, vreq;
#define YY_INPUT(b,r,m) do { if (vin[vpos]) { (b)[0] = vin[vpos++]; vreq++; (r) = 1; } else (r) = 0; } while (0)
"""
    CMAIN = "#include <stdio.h>\nint main(void){ yylex(); printf(\"%d\\n\", vreq); return 0; }\n"

    def p_reads(n):
        def f(P):
            e = gen_ok(P)
            if e:
                return e
            ok, err = P.compile()
            if not ok:
                return "does not compile: " + err[-200:]
            rc, out, err = P.run()
            return None if out.strip() == str(n) else "after the first token (%s) %s bytes had been requested, expected %d" % ("ab", out.strip(), n)
        return f
    add("interactive", [(["-I"], []), (["--interactive"], []), ([], ["interactive"])], p_reads(2), body="ab return 1;\n. return 2;\n", defs=COUNT, sect3=CMAIN)
    add("batch", [(["-B"], []), (["--batch"], []), ([], ["batch"])], p_reads(3), body="ab return 1;\n. return 2;\n", defs=COUNT, sect3=CMAIN)

    def p_7bit(P):
        return None if P.rc != 0 and P.stderr.strip() else "an 8-bit pattern was accepted in a 7-bit scanner (rc=%s)" % P.rc
    add("7bit", [(["-7"], []), (["--7bit"], []), ([], ["7bit"])], p_7bit, body="\\x80 return 1;\n")
    add("8bit", [(["-8"], []), (["--8bit"], []), ([], ["8bit"]), (["-8", "-Cf"], [])],
        lambda P: gen_ok(P) or tokens_main(P, b"\x80", "1 end"), body="\\x80 return 1;\n", sect3=MAIN_NR)

    def p_nodefault(P):
        e = gen_ok(P)
        if e:
            return e
        ok, err = P.compile()
        if not ok:
            return "does not compile: " + err[-200:]
        rc, out, err = P.run(b"\x01")
        return None if rc != 0 and "jammed" in err else "unmatched input did not stop the scanner with 'flex scanner jammed' (rc=%s, %r)" % (rc, err[-80:])
    add("nodefault", [(["-s"], []), (["--nodefault"], []), ([], ["nodefault"])], p_nodefault, body="a return 1;\n", sect3=MAIN_NR)

    CXXND = "#include <iostream>\nint main(){ yyFlexLexer l; while (l.yylex() > 0) ; return 0; }\n"
    add("nodefault-c++", [(["-+", "-s"], []), ([], ["c++ nodefault"])], p_nodefault, body="a return 1;\n", sect3=CXXND, cxx=True, outname="lex.yy.cc")

    def p_default(P):
        e = gen_ok(P)
        if e:
            return e
        ok, err = P.compile()
        rc, out, err = P.run(b"x")
        return None if ok and rc == 0 and out.startswith("x") else "the default rule did not echo unmatched input (rc=%s out=%r)" % (rc, out)
    add("default", [(["--default"], []), ([], ["default"]), ([], [])], p_default, body="a return 1;\n", sect3=MAIN_NR)

    def p_noisatty(P):
        e = gen_ok(P)
        if e:
            return e
        ok, err = P.compile(link=False)
        if not ok:
            return "does not compile: " + err[-200:]
        return None if not any(s == "isatty" for t, s in P.nm()) else "the scanner still calls isatty()"
    add("always-interactive", [(["--always-interactive"], []), ([], ["always-interactive"])], p_noisatty)
    add("never-interactive", [(["--never-interactive"], []), ([], ["never-interactive"])], p_noisatty)

    add("posix", [(["-X"], []), (["--posix"], []), ([], ["posix"])], lambda P: gen_ok(P) or tokens_main(P, b"abab", "1 end"),
        body="ab{2} return 1;\n.|\\n return 9;\n", sect3=MAIN_NR)
    add("flex-repeat-default", [([], [])], lambda P: gen_ok(P) or tokens_main(P, b"abb", "1 end"), body="ab{2} return 1;\n.|\\n return 9;\n", sect3=MAIN_NR)

    add("stack", [(["--stack"], []), ([], ["stack"])], lambda P: gen_ok(P) or tokens_main(P, b"ab", "1 2 end"),
        body="<INITIAL>a { yy_push_state(S); return 1; }\n<S>b { yy_pop_state(); return 2; }\n", top="%x S", sect3=MAIN_NR)

    SMAIN = "#include <stdio.h>\nint main(void){ printf(\"%d %d\\n\", yyin == stdin, yyout == stdout); return 0; }\n"

    def p_stdinit(exp):
        def f(P):
            e = gen_ok(P)
            if e:
                return e
            ok, err = P.compile()
            if not ok:
                return "does not compile: " + err[-200:]
            rc, out, err = P.run()
            return None if out.strip() == exp else "yyin/yyout initial values: got %r expected %r" % (out.strip(), exp)
        return f
    # the manual: initialising yyin/yyout statically needs stdin/stdout to be compile-time constants, which ISO C (and glibc) do not
    # promise, "in a reentrant scanner, however, this is not a problem" - so the option is probed on reentrant scanners
    SRMAIN = "#include <stdio.h>\nint main(void){ yyscan_t s; yylex_init(&s); printf(\"%d %d\\n\", yyget_in(s) == stdin, yyget_out(s) == stdout); yylex_destroy(s); return 0; }\n"
    add("stdinit", [(["--stdinit", "-R"], []), ([], ["stdinit reentrant"])], p_stdinit("1 1"), sect3=SRMAIN)
    add("nostdinit-default", [([], [])], p_stdinit("0 0"), sect3=SMAIN)
    add("nostdinit", [(["--nostdinit", "-R"], []), ([], ["nostdinit reentrant"]), ([], ["reentrant"])], p_stdinit("0 0"), sect3=SRMAIN)

    LMAIN = "#include <stdio.h>\nint main(void){ while (yylex() > 0) ; printf(\"%d\\n\", yylineno); return 0; }\n"
    add("yylineno", [(["--yylineno"], []), ([], ["yylineno"])],
        lambda P: gen_ok(P) or (lambda r: None if r is None else r)(tokens_main(P, b"a\nb\n\n", "4")), sect3=LMAIN)

    WMAIN = "#include <stdio.h>\nstatic int wrapped;\nint yywrap(void){ wrapped++; return 1; }\nint main(void){ while (yylex() > 0) ; printf(\"%d\\n\", wrapped); return 0; }\n"
    add("yywrap", [(["--yywrap"], []), ([], ["yywrap"])], lambda P: gen_ok(P) or tokens_main(P, b"a", "1"), keep_wrap=True, sect3=WMAIN)

    def p_noyywrap(P):
        e = gen_ok(P)
        if e:
            return e
        ok, err = P.compile()
        return None if ok else "a scanner built with noyywrap still needs a yywrap(): " + err[-200:]
    add("noyywrap", [(["--noyywrap"], []), ([], ["noyywrap"])], p_noyywrap, keep_wrap=True, sect3=MAIN_NR)

    RMAIN = "#include <stdio.h>\nint main(void){ yyscan_t s; int t; yylex_init(&s); yy_scan_string(\"abc\\n\", s); while ((t = yylex(s)) > 0) printf(\"%d \", t); printf(\"end\\n\"); yylex_destroy(s); return 0; }\n"
    add("reentrant", [(["-R"], []), (["--reentrant"], []), ([], ["reentrant"])], lambda P: gen_ok(P) or tokens_main(P, b"", "1 3 end"), sect3=RMAIN)

    BMAIN = "#include <stdio.h>\nint main(void){ yyscan_t s; YYSTYPE v = 0; int t; yylex_init(&s); yy_scan_string(\"abc\", s); t = yylex(&v, s); printf(\"%d %d\\n\", t, v); yylex_destroy(s); return 0; }\n"
    BNMAIN = "#include <stdio.h>\nint main(void){ YYSTYPE v = 0; int t; yy_scan_string(\"abc\"); t = yylex(&v); printf(\"%d %d\\n\", t, v); yylex_destroy(); return 0; }\n"
    add("bison-bridge-nr", [(["--bison-bridge"], []), ([], ["bison-bridge"])], lambda P: gen_ok(P) or tokens_main(P, b"", "1 7"),
        defs="#define YYSTYPE int", body="abc { *yylval = 7; return 1; }\n.|\\n return 4;\n", sect3=BNMAIN)
    add("bison-bridge", [(["--bison-bridge", "-R"], []), ([], ["bison-bridge reentrant"])], lambda P: gen_ok(P) or tokens_main(P, b"", "1 7"),
        defs="#define YYSTYPE int", body="abc { *yylval = 7; return 1; }\n.|\\n return 4;\n", sect3=BMAIN)
    LOCMAIN = "#include <stdio.h>\nint main(void){ yyscan_t s; YYSTYPE v = 0; YYLTYPE l = {0}; int t; yylex_init(&s); yy_scan_string(\"abc\", s); t = yylex(&v, &l, s); printf(\"%d %d %d\\n\", t, v, l.first_line); yylex_destroy(s); return 0; }\n"
    add("bison-locations", [(["--bison-bridge", "--bison-locations", "-R"], []), ([], ["bison-bridge bison-locations reentrant"]), ([], ["bison-locations reentrant"])],
        lambda P: gen_ok(P) or tokens_main(P, b"", "1 7 5"),
        defs="#define YYSTYPE int\ntypedef struct { int first_line; } YYLTYPE;\n#define YYLTYPE YYLTYPE",
        body="abc { *yylval = 7; yylloc->first_line = 5; return 1; }\n.|\\n return 4;\n", sect3=LOCMAIN)

    def p_noline(P):
        e = gen_ok(P)
        return e or (None if not re.search(r"^#line ", P.src, re.M) else "#line directives present although they were switched off")
    add("noline", [(["-L"], []), (["--noline"], []), ([], ["noline"])], p_noline)
    add("line-default", [([], [])], lambda P: gen_ok(P) or (None if re.search(r'^#line \d+ "p\.l"', P.src, re.M) else "no #line directive for the input file"))

    CXXMAIN = "#include <sstream>\n#include <iostream>\nint main(){ std::istringstream in(\"abc\\n\"); yyFlexLexer l(&in); int t; while ((t = l.yylex()) > 0) std::cout << t << ' '; std::cout << \"end\\n\"; return 0; }\n"
    add("c++", [(["-+"], []), (["--c++"], []), ([], ["c++"])], lambda P: gen_ok(P) or tokens_main(P, b"", "1 3 end"), sect3=CXXMAIN, cxx=True, outname="lex.yy.cc")

    AMAIN = "#include <stdio.h>\nint main(void){ printf(\"%d\\n\", (int)sizeof(yytext)); return 0; }\n"

    def p_sizeof(exp):
        def f(P):
            e = gen_ok(P)
            if e:
                return e
            ok, err = P.compile()
            if not ok:
                return "does not compile: " + err[-200:]
            rc, out, err = P.run()
            return None if out.strip() == exp else "sizeof(yytext) is %s, expected %s" % (out.strip(), exp)
        return f
    add("array", [(["--array"], []), ([], ["array"])], p_sizeof("8192"), sect3=AMAIN)
    add("%array", [([], [])], p_sizeof("8192"), top="%array", sect3=AMAIN)
    add("pointer", [(["--pointer"], []), ([], ["pointer"]), ([], [])], p_sizeof("8"), sect3=AMAIN)
    add("yylmax", [([], ["array yylmax=100"])], p_sizeof("100"), sect3=AMAIN)

    def p_prefix(P):
        if P.rc != 0:
            return "flex failed: " + P.stderr[-200:]
        src = P.read("lex.foo.c")
        if src is None:
            return "the default output file was not renamed to lex.foo.c (files: %s)" % P.files
        ok, err = P.compile(link=False, src="lex.foo.c")
        if not ok:
            return "does not compile: " + err[-200:]
        bad = sorted(s for t, s in P.nm() if t in "TDBRCGSV" and not s.lower().startswith("foo") and s != "main")
        if bad:
            return "externally visible definitions not renamed by the prefix: %s" % bad[:6]
        good = [s for t, s in P.nm() if t in "TDB" and s.startswith("foo")]
        return None if "foolex" in good and "foorestart" in good else "foolex/foorestart missing from the object (%s)" % good[:8]
    add("prefix", [(["-Pfoo"], []), (["--prefix=foo"], []), ([], ['prefix="foo"'])], p_prefix)
    BDEFS = "#define YYSTYPE int\ntypedef struct { int first_line; } YYLTYPE;\n#define YYLTYPE YYLTYPE"
    add("prefix-reentrant", [(["-Pfoo", "-R"], []), ([], ['prefix="foo" reentrant'])], p_prefix)
    add("prefix-bison", [(["-Pfoo", "-R", "--bison-bridge", "--bison-locations"], []), ([], ['prefix="foo" reentrant bison-bridge bison-locations']),
                         (["-Pfoo", "--bison-bridge"], [])], p_prefix, defs=BDEFS)
    add("prefix-all-features", [(["-Pfoo"], ["yylineno stack reject yymore"]), (["-Pfoo"], ["reentrant yylineno stack reject yymore"]),
                                ([], ['prefix="foo" array yylineno stack']), (["-Pfoo", "-Cf"], []), (["-Pfoo", "-CF"], []),
                                (["-Pfoo", "--tables-file=T.tbl"], [])], p_prefix)

    def p_main(P):
        e = gen_ok(P)
        if e:
            return e
        ok, err = P.compile()
        if not ok:
            return "a scanner built with the main option does not link without a user main(): " + err.strip().splitlines()[-1][:200]
        rc, out, err = P.run(b"abc\n")
        return None if rc == 0 else "the provided main() returned %s" % rc
    add("main", [(["--main"], []), ([], ["main"])], p_main, keep_wrap=True, body="abc ;\n.|\\n ;\n")

    TMAIN = "#include <stdio.h>\nint main(void){ int t; while ((t = yylex()) != 42 && t > 0) ; printf(\"%d\\n\", t); return 0; }\n"
    add("yyterminate", [([], ['yyterminate="return 42"'])], lambda P: gen_ok(P) or tokens_main(P, b"a", "42"), sect3=TMAIN)

    add("nounistd", [(["--nounistd"], []), ([], ["nounistd"])],
        lambda P: gen_ok(P) or (None if "#include <unistd.h>" not in P.src else "unistd.h is still included"))
    add("unistd-default", [([], [])], lambda P: gen_ok(P) or (None if "#include <unistd.h>" in P.src else "unistd.h is not included by default"))

    add("yyclass", [(["-+", "--yyclass=Foo"], []), ([], ["c++", 'yyclass="Foo"'])],
        lambda P: gen_ok(P) or (None if re.search(r"int Foo::yylex\s*\(", P.src) else "actions were not placed in Foo::yylex()"), outname="lex.yy.cc", cxx=True)

    add("yymore", [(["--yymore"], []), ([], ["yymore"])], lambda P: gen_ok(P) or tokens_main(P, b"ab", "2 end"),
        defs="#define MYMORE yymore()", body="a { MYMORE; }\nab return 2;\nb return (int)yyleng;\n", sect3=MAIN_NR)
    add("reject", [(["--reject"], []), ([], ["reject"])], lambda P: gen_ok(P) or tokens_main(P, b"ab", "2 end"),
        defs="#define MYREJ yyreject()", body="ab { MYREJ; }\nab return 2;\n", sect3=MAIN_NR)
    # unsetting them says the feature "actually is not used": the scanner must still be a working one, whatever rules it has (variable
    # trailing context runs on the REJECT machinery internally) - found by a round-5 sub-agent on the unchanged tree
    VT = "a+/b+ return 1;\nb+ return 2;\nc/d return 4;\nd$ return 5;\n\\n return 3;\n"
    add("noreject", [(["--noreject"], []), ([], ["noreject"]), ([], ["noreject noyymore"]), ([], ["noreject yylineno"])],
        lambda P: gen_ok(P) or tokens_main(P, b"aabb\ncd\n", "1 2 3 4 5 3 end"), body=VT, sect3=MAIN_NR)
    add("noyymore", [(["--noyymore"], []), ([], ["noyymore"])], lambda P: gen_ok(P) or tokens_main(P, b"aabb\ncd\n", "1 2 3 4 5 3 end"), body=VT, sect3=MAIN_NR)
    add("yyreject()-detected", [([], [])], lambda P: gen_ok(P) or tokens_main(P, b"ab", "2 end"), body="ab { yyreject(); }\nab return 2;\n", sect3=MAIN_NR)
    add("REJECT-detected", [([], [])], lambda P: gen_ok(P) or tokens_main(P, b"ab", "2 end"), body="ab { REJECT; }\nab return 2;\n", sect3=MAIN_NR)

    # --- default character-set size (manual: 8-bit unless -Cf / -CF without equivalence classes)
    B8 = "\\x80 return 1;\n"
    add("default-8bit", [([], []), (["-Cem"], []), (["-Ce"], []), (["-Cm"], []), (["-C"], []), (["-Ca"], []), (["-Cfe"], []), (["-CFe"], []), (["-Cfea"], []),
                         ([], ["full ecs"]), ([], ["fast ecs"]), (["-I"], []), (["-B"], [])],
        lambda P: gen_ok(P) or tokens_main(P, b"\x80", "1 end"), body=B8, sect3=MAIN_NR)
    add("default-7bit", [(["-Cf"], []), (["-CF"], []), (["-f"], []), (["-F"], []), (["-Cfa"], []), ([], ["full"]), ([], ["fast"])], p_7bit, body=B8)
    # --- table options
    def has(rx, what, neg=False):
        def f(P):
            e = gen_ok(P)
            if e:
                return e
            found = re.search(rx, P.src, re.M) is not None
            return None if found != neg else what
        return f
    add("align", [(["-Ca"], []), (["--align"], []), ([], ["align"])], has(r"flex_int32_t yy_accept\[", "-Ca does not use 32-bit table entries"))
    add("ecs", [(["-Ce"], []), (["--ecs"], []), ([], ["ecs"])], has(r"yy_ec\[256\]", "no equivalence-class table"))
    add("noecs", [(["-C"], []), (["--noecs"], []), ([], ["noecs"])], has(r"yy_ec\[256\]", "equivalence classes used although switched off", neg=True))
    add("meta-ecs", [(["-Cm"], []), (["--meta-ecs"], []), ([], ["meta-ecs noecs"])], has(r"yy_meta\[", "no meta-equivalence table"),
        body="abc return 1;\nabd return 2;\n[a-z]+ return 3;\n[0-9]+ return 5;\n.|\\n return 4;\n")
    add("read", [(["-Cr"], []), (["--read"], []), ([], ["read"])], has(r"\bread\(\s*fileno", "the scanner does not use read()"))
    add("full", [(["-f"], []), (["--full"], []), ([], ["full"]), (["-Cf"], [])], has(r"yy_nxt\[\]\[|yy_nxt\[\d+\]\[", "no full (two-dimensional) transition table"))
    add("fast", [(["-F"], []), (["--fast"], []), ([], ["fast"]), (["-CF"], [])], has(r"yy_transition\[", "no fast transition table"))
    add("full-tokens", [(["-f"], []), (["-F"], []), (["-Cfe"], []), (["-CFa"], [])], lambda P: gen_ok(P) or tokens_main(P, b"abc\nab", "1 3 2 end"), sect3=MAIN_NR)

    # --- debugging / reporting
    def p_debug(P):
        e = gen_ok(P)
        if e:
            return e
        ok, err = P.compile()
        if not ok:
            return "does not compile: " + err[-200:]
        rc, out, err = P.run(b"abc\n")
        return None if "--accepting rule at line" in err else "a -d scanner printed no trace on stderr"
    add("debug", [(["-d"], []), (["--debug"], []), ([], ["debug"])], p_debug, sect3=MAIN_NR)
    add("verbose", [(["-v"], []), (["--verbose"], []), ([], ["verbose"])],
        lambda P: None if P.rc == 0 and "DFA states" in P.stderr else "-v printed no statistics on stderr")
    add("perf-report", [(["-p"], []), (["--perf-report"], []), ([], ["perf-report"])],
        lambda P: None if P.rc == 0 and P.stderr.strip() else "-p printed no performance report", body="a/b+c { yyreject(); }\n.|\\n ;\n")
    add("trace", [(["-T"], []), (["--trace"], [])], lambda P: None if P.rc == 0 and P.stderr.strip() else "-T printed no trace")
    WB = "a return 1;\na return 2;\n"
    add("warn-default", [([], []), (["--warn"], []), ([], ["warn"])], lambda P: None if P.rc == 0 and "cannot be matched" in P.stderr else "no warning for an unmatchable rule", body=WB)
    add("nowarn", [(["-w"], []), (["--nowarn"], []), ([], ["nowarn"])], lambda P: None if P.rc == 0 and "warning" not in P.stderr else "warnings not suppressed: " + P.stderr[:100], body=WB)

    # --- code-level hooks
    BUFMAIN = "#include <stdio.h>\nint main(void){ printf(\"%d\\n\", (int)YY_BUF_SIZE); return 0; }\n"
    add("bufsize", [([], ["bufsize=1234"])], lambda P: gen_ok(P) or tokens_main(P, b"", "1234"), sect3=BUFMAIN)
    XMAIN = ("#include <stdio.h>\nstruct ctx { int v; };\nint main(void){ yyscan_t s; struct ctx c = {11}; yylex_init_extra(&c, &s);"
             " printf(\"%d\\n\", yyget_extra(s)->v); yylex_destroy(s); return 0; }\n")
    add("extra-type", [([], ["reentrant", 'extra-type="struct ctx *"'])],
        lambda P: gen_ok(P) or (lambda ok_err: None if ok_err[0] else "yyextra does not have the requested type: " + ok_err[1].strip().splitlines()[-1][:200])(
            P.compile(cflags=["-Werror=incompatible-pointer-types", "-Werror=int-conversion"])),
        top="%top{\nstruct ctx;\n}", sect3=XMAIN)
    DMAIN = "#include <stdio.h>\nint main(void){ printf(\"%d\\n\", mylex(5)); return 0; }\n"
    add("yydecl", [([], ['yydecl="int mylex(int k)"'])], lambda P: gen_ok(P) or tokens_main(P, b"", "5"), body="<<EOF>> return k;\n.|\\n ;\n", sect3=DMAIN)
    HMAIN = "#include <stdio.h>\nint main(void){ while (yylex() > 0) ; printf(\"%d %d %d\\n\", n_init, n_pre, n_post); return 0; }\n"
    add("hooks", [([], ['pre-action="n_pre++;"', 'post-action="n_post++; break;"', 'user-init="n_init++;"'])],
        lambda P: gen_ok(P) or tokens_main(P, b"abc\n", "1 2 2"), defs="static int n_init, n_pre, n_post;", body="abc ;\n\\n ;\n", sect3=HMAIN)
    # "executed before the first scan (and before the scanner's internal initializations are done)": what user-init sets up - here the
    # input file - is what the scanner then uses (round-6 seed C19-r6m3)
    UIB = "abc return 1;\nx return 2;\n\\n return 3;\n"
    UIMAIN = ("#include <stdio.h>\nint main(void){ int t; vf_in2 = tmpfile(); fputs(\"x\\n\", vf_in2); rewind(vf_in2);"
              " while ((t = yylex()) > 0) printf(\"%d \", t); printf(\"end\\n\"); return 0; }\n")
    UIMAIN_R = ("#include <stdio.h>\nint main(void){ int t; yyscan_t s; vf_in2 = tmpfile(); fputs(\"x\\n\", vf_in2); rewind(vf_in2); yylex_init(&s);"
                " while ((t = yylex(s)) > 0) printf(\"%d \", t); printf(\"end\\n\"); yylex_destroy(s); return 0; }\n")
    add("user-init:before-internal-init", [([], ['user-init="yyin = vf_in2;"'])], lambda P: gen_ok(P) or tokens_main(P, b"abc\n", "2 3 end"),
        defs="#include <stdio.h>\nstatic FILE *vf_in2;", body=UIB, sect3=UIMAIN)
    add("user-init:before-internal-init:reentrant", [([], ["reentrant", 'user-init="yyin = vf_in2;"'])], lambda P: gen_ok(P) or tokens_main(P, b"abc\n", "2 3 end"),
        defs="#include <stdio.h>\nstatic FILE *vf_in2;", body=UIB, sect3=UIMAIN_R)
    add("hooks-or-actions", [([], ['pre-action="n_pre++;"', 'post-action="n_post++; break;"', 'user-init="n_init++;"'])],
        lambda P: gen_ok(P) or tokens_main(P, b"abcdef\n", "1 5 5"), defs="static int n_init, n_pre, n_post;", body="abc ;\nd |\ne |\nf ;\n\\n ;\n", sect3=HMAIN)
    NRMAIN = "#include <stdio.h>\n#include <string.h>\nint yyread(char *buf, size_t max){ static int done; if (done) return 0; done = 1; memcpy(buf, \"abc\", 3); return 3; }\n" + MAIN_NR
    add("noyyread", [([], ["noyyread"])], lambda P: gen_ok(P) or tokens_main(P, b"zzzz", "1 end"), defs="#include <stddef.h>\nint yyread(char *buf, size_t max);", sect3=NRMAIN)
    ALMAIN = ("#include <stdio.h>\n#include <stdlib.h>\nstatic int na;\nvoid *yyalloc(yy_size_t n){ na++; return malloc(n); }\nvoid *yyrealloc(void *p, yy_size_t n){ return realloc(p, n); }\n"
              "void yyfree(void *p){ free(p); }\nint main(void){ yy_scan_string(\"abc\"); yylex(); yylex_destroy(); printf(\"%d\\n\", na > 0); return 0; }\n")
    add("noyyalloc", [([], ["noyyalloc noyyrealloc noyyfree"])], lambda P: gen_ok(P) or tokens_main(P, b"", "1"), sect3=ALMAIN)
    PMAIN = ("#include <stdio.h>\n#include <stdlib.h>\nstatic void yypanic(const char *m){ printf(\"mine\\n\"); exit(0); }\n"
             "int main(void){ yy_pop_state(); return 1; }\n")
    add("noyypanic", [([], ["noyypanic stack"])], lambda P: gen_ok(P) or tokens_main(P, b"", "mine"), defs="static void yypanic(const char *m);", sect3=PMAIN)

    def p_absent(sym):
        def f(P):
            e = gen_ok(P)
            if e:
                return e
            ok, err = P.compile(link=False)
            if not ok:
                return "does not compile: " + err[-200:]
            return None if not any(s == sym and t in "TtDdBb" for t, s in P.nm()) else "%s is still defined" % sym
        return f
    for fn in ("yy_scan_buffer", "yy_scan_bytes", "yy_scan_string", "yyget_text", "yyget_leng", "yyget_in", "yyset_in", "yyget_out", "yyset_out",
               "yyget_lineno", "yyset_lineno", "yyget_debug", "yyset_debug"):
        add("no" + fn, [([], ["no" + fn])], p_absent(fn))
    for fn in ("yy_push_state", "yy_pop_state", "yy_top_state"):
        add("no" + fn, [([], ["stack no" + fn])], p_absent(fn))
    add("noyyinput", [([], ["noyyinput"]), ([], ["noinput"])], p_absent("yyinput"))
    add("noyyunput", [([], ["noyyunput"]), ([], ["nounput"])], lambda P: gen_ok(P) or (None if "yyunput_r" not in P.src.split("user actions")[0][-1:] and
        not re.search(r"^static void yyunput_r\s*\(.*\)\s*$\n\{", P.src, re.M) else "yyunput is still defined"))

    # --- misc
    add("help", [(["-h"], []), (["--help"], []), (["-?"], [])], lambda P: None if P.rc == 0 and b"Usage" in P.stdout else "-h did not print usage and exit 0 (rc=%s)" % P.rc)
    add("version", [(["-V"], []), (["--version"], [])], lambda P: None if P.rc == 0 and re.search(rb"\d+\.\d+", P.stdout) else "-V did not print a version (rc=%s)" % P.rc)
    add("posix-noops", [(["-c"], []), (["-n"], [])], gen_ok)
    c99main = "#include <stdio.h>\nint main(void){ yyscan_t s; int t; yylex_init(&s); yy_scan_string(\"abc\\n\", s); while ((t = yylex(s)) > 0) printf(\"%d \", t); printf(\"end\\n\"); yylex_destroy(s); return 0; }\n"
    add("emit-c99", [(["--emit=c99"], []), (["-ec99"], []), ([], ['emit="c99"'])],
        lambda P: gen_ok(P) or (None if "typedef struct yyguts_t *yyscan_t" in P.src else "not the c99 back end") or tokens_main(P, b"", "1 3 end"), sect3=c99main)
    # ------------------------------------------------------------------ the c99 back end
    # The manual: c99 generates only reentrant scanners and omits the Bison bridge, header generation and loadable tables;
    # everything else is claimed, so the options below are probed again with --emit=c99 / %option emit="c99".
    C99 = [(["--emit=c99"], []), ([], ['emit="c99"'])]

    def c99(extra_pct=(), extra_cli=()):
        return [(c + list(extra_cli), q + list(extra_pct)) for c, q in C99]
    CM = ("#include <stdio.h>\nint main(void){ yyscan_t s; int t; yylex_init(&s); while ((t = yylex(s)) > 0) printf(\"%d \", t); printf(\"end\\n\");"
          " yylex_destroy(s); return 0; }\n")
    add("c99:tokens", c99(), lambda P: gen_ok(P) or tokens_main(P, b"abc\nab", "1 3 2 end"), sect3=CM)
    add("c99:user-init:before-internal-init", c99(['user-init="yyset_in(vf_in2, yyscanner);"']), lambda P: gen_ok(P) or tokens_main(P, b"abc\n", "2 3 end"),
        defs="#include <stdio.h>\nstatic FILE *vf_in2;", body="abc return 1;\nx return 2;\n\\n return 3;\n",
        sect3=("#include <stdio.h>\nint main(void){ int t; yyscan_t s; vf_in2 = tmpfile(); fputs(\"x\\n\", vf_in2); rewind(vf_in2); yylex_init(&s);"
               " while ((t = yylex(s)) > 0) printf(\"%d \", t); printf(\"end\\n\"); yylex_destroy(s); return 0; }\n"))
    add("c99:case-insensitive", c99(["case-insensitive"]) + c99((), ["-i"]), lambda P: gen_ok(P) or tokens_main(P, b"ABC\n", "1 3 end"), sect3=CM)
    add("c99:nodefault", c99(["nodefault"]) + c99((), ["-s"]), p_nodefault, body="a return 1;\n", sect3=CM)
    add("c99:full-fast", c99(["full"]) + c99(["fast"]) + c99((), ["-Cfe"]) + c99((), ["-CFa"]) + c99(["align"]) + c99(["noecs nometa-ecs"]),
        lambda P: gen_ok(P) or tokens_main(P, b"abc\nab", "1 3 2 end"), sect3=CM)
    add("c99:stack", c99(["stack"]), lambda P: gen_ok(P) or tokens_main(P, b"ab", "1 2 end"),
        body="<INITIAL>a { yy_push_state(S, yyscanner); return 1; }\n<S>b { yy_pop_state(yyscanner); return 2; }\n", top="%x S", sect3=CM)
    CLM = "#include <stdio.h>\nint main(void){ yyscan_t s; yylex_init(&s); while (yylex(s) > 0) ; printf(\"%d\\n\", yyget_lineno(s)); yylex_destroy(s); return 0; }\n"
    add("c99:yylineno", c99(["yylineno"]) + c99((), ["--yylineno"]), lambda P: gen_ok(P) or tokens_main(P, b"a\nb\n\n", "4"), sect3=CLM)
    CWM = ("#include <stdio.h>\nstatic int wrapped;\nint yywrap(yyscan_t s){ wrapped++; return 1; }\n"
           "int main(void){ yyscan_t s; yylex_init(&s); while (yylex(s) > 0) ; printf(\"%d\\n\", wrapped); yylex_destroy(s); return 0; }\n")
    add("c99:yywrap", c99(["yywrap"]), lambda P: gen_ok(P) or tokens_main(P, b"a", "1"), keep_wrap=True, sect3=CWM)
    add("c99:noyywrap", c99(["noyywrap"]), p_noyywrap, keep_wrap=True, sect3=CM)
    add("c99:noline", c99(["noline"]) + c99((), ["-L"]), p_noline)
    add("c99:line-default", c99(), lambda P: gen_ok(P) or (None if re.search(r'^#line \d+ "p\.l"', P.src, re.M) else "no #line directive for the input file"))
    add("c99:prefix", c99(['prefix="foo"']) + c99((), ["-Pfoo"]) + c99(['prefix="foo" yylineno stack reject yymore']), p_prefix)
    add("c99:main", c99(["main"]) + c99((), ["--main"]), p_main, keep_wrap=True, body="abc ;\n.|\\n ;\n")
    CTM = "#include <stdio.h>\nint main(void){ yyscan_t s; int t; yylex_init(&s); while ((t = yylex(s)) != 42 && t > 0) ; printf(\"%d\\n\", t); yylex_destroy(s); return 0; }\n"
    add("c99:yyterminate", c99(['yyterminate="return 42"']), lambda P: gen_ok(P) or tokens_main(P, b"a", "42"), sect3=CTM)
    add("c99:yyterminate-in-action", c99(['yyterminate="return 42"']), lambda P: gen_ok(P) or tokens_main(P, b"q", "42"),
        body="q { yyterminate(); }\n.|\\n return 4;\n", sect3=CTM)
    CXM = ("#include <stdio.h>\nint main(void){ yyscan_t s; struct ctx c = {11}; yylex_init_extra(&c, &s);"
           " printf(\"%d\\n\", yyget_extra(s)->v); yylex_destroy(s); return 0; }\n")
    add("c99:extra-type", c99(['extra-type="struct ctx *"']),
        lambda P: gen_ok(P) or (lambda ok_err: None if ok_err[0] else "yyextra does not have the requested type: " + ok_err[1].strip().splitlines()[-1][:200])(P.compile()),
        top="%top{\nstruct ctx { int v; };\n}", sect3=CXM)
    CDM = "#include <stdio.h>\nint main(void){ yyscan_t s; yylex_init(&s); printf(\"%d\\n\", mylex(s, 5)); yylex_destroy(s); return 0; }\n"
    add("c99:yydecl", c99(['yydecl="int mylex(yyscan_t yyscanner, int k)"']), lambda P: gen_ok(P) or tokens_main(P, b"", "5"), body="<<EOF>> return k;\n.|\\n ;\n", sect3=CDM)
    CHM = ("#include <stdio.h>\nint main(void){ yyscan_t s; yylex_init(&s); while (yylex(s) > 0) ; printf(\"%d %d %d\\n\", n_init, n_pre, n_post);"
           " yylex_destroy(s); return 0; }\n")
    add("c99:hooks", c99(['pre-action="n_pre++;"', 'post-action="n_post++; break;"', 'user-init="n_init++;"']),
        lambda P: gen_ok(P) or tokens_main(P, b"abc\n", "1 2 2"), defs="static int n_init, n_pre, n_post;", body="abc ;\n\\n ;\n", sect3=CHM)
    CRM = ("#include <string.h>\nint yyread(char *buf, size_t max, yyscan_t s){ static int done; if (done) return 0; done = 1; memcpy(buf, \"abc\", 3); return 3; }\n" + CM)
    add("c99:noyyread", c99(["noyyread"]), lambda P: gen_ok(P) or tokens_main(P, b"zzzz", "1 end"), sect3=CRM)
    CAM = ("#include <stdio.h>\n#include <stdlib.h>\nstatic int na;\nvoid *yyalloc(size_t n, yyscan_t s){ na++; return malloc(n); }\n"
           "void *yyrealloc(void *p, size_t n, yyscan_t s){ return realloc(p, n); }\nvoid yyfree(void *p, yyscan_t s){ free(p); }\n"
           "int main(void){ yyscan_t s; yylex_init(&s); yy_scan_string(\"abc\", s); yylex(s); yylex_destroy(s); printf(\"%d\\n\", na > 0); return 0; }\n")
    add("c99:noyyalloc", c99(["noyyalloc noyyrealloc noyyfree"]), lambda P: gen_ok(P) or tokens_main(P, b"", "1"), sect3=CAM)
    CPM = ("#include <stdio.h>\n#include <stdlib.h>\nstatic void yypanic(const char *m, yyscan_t s){ printf(\"mine\\n\"); exit(0); }\n"
           "int main(void){ yyscan_t s; yylex_init(&s); yy_pop_state(s); return 1; }\n")
    add("c99:noyypanic", c99(["noyypanic stack"]), lambda P: gen_ok(P) or tokens_main(P, b"", "mine"), sect3=CPM)
    add("c99:stdinit", c99(["stdinit"]) + c99((), ["--stdinit"]), p_stdinit("1 1"), sect3=SRMAIN)
    add("c99:nostdinit-default", c99(), p_stdinit("0 0"), sect3=SRMAIN)
    CDBG = CM.replace("yylex_init(&s);", "yylex_init(&s); yyset_debug(1, s);")
    add("c99:debug", c99(["debug"]) + c99((), ["-d"]), p_debug, sect3=CDBG)
    add("c99:7bit", c99(["7bit"]), p_7bit, body="\\x80 return 1;\n")
    add("c99:posix", c99(["posix"]) + c99((), ["-X"]), lambda P: gen_ok(P) or tokens_main(P, b"abab", "1 end"), body="ab{2} return 1;\n.|\\n return 9;\n", sect3=CM)
    add("c99:yymore-reject", c99(), lambda P: gen_ok(P) or tokens_main(P, b"abab", "2 2 end"),
        body="ab { yyreject(); }\nab return 2;\n", sect3=CM)
    for fn in ("yy_scan_buffer", "yy_scan_bytes", "yy_scan_string", "yyget_text", "yyget_leng", "yyget_in", "yyset_in", "yyget_out", "yyset_out",
               "yyget_lineno", "yyset_lineno", "yyget_debug", "yyset_debug", "yyget_extra", "yyset_extra"):
        add("c99:no" + fn, c99(["no" + fn]), p_absent(fn))
    for fn in ("yy_push_state", "yy_pop_state", "yy_top_state"):
        add("c99:no" + fn, c99(["stack no" + fn]), p_absent(fn))
    add("c99:unsupported-refused", [(["--emit=c99", "--header-file=H.h"], []), (["--emit=c99", "--tables-file=T.tbl"], []), (["--emit=c99", "-+"], [])],
        lambda P: None if P.rc != 0 and P.stderr.strip() else "a feature the c99 back end documents as unsupported was accepted silently (rc=%s)" % P.rc)
    # contradictions that must be refused in every spelling and order (the command line, %option, one of each): the C++ scanner class has
    # no bison bridge (round-9 seed C19-r9m2 tested the wrong flag, so only bison-locations was still refused)
    for bo in ("bison-bridge", "bison-locations"):
        add("c++:%s-refused" % bo, [(["-+", "--" + bo], []), ([], ["c++ " + bo]), ([], [bo + " c++"]), (["-+"], [bo]), (["--" + bo], ["c++"])],
            lambda P, bo=bo: None if P.rc != 0 and P.stderr.strip() else "%s together with the C++ scanner was accepted silently (rc=%s)" % (bo, P.rc))
    return T


def evaluate(args):
    """One option, one spelling (optionally combined with a second option)."""
    name, si, name2, sj = args
    T = {o["name"]: o for o in OPTIONS()}
    o = T[name]
    cli, pct = o["spellings"][si]
    flex = build.get_flex()
    kw = dict(o["kw"])
    res = {"name": name, "spelling": (cli, pct), "msgs": []}
    if name2 is None:
        P = Probe(flex, cli=cli, pct=pct, **kw)
        try:
            m = o["pred"](P)
            if m:
                res["msgs"].append((name, m))
                res["spec"] = P.spec
                res["flex_stderr"] = P.stderr[-300:]
        finally:
            P.close()
        return res
    # pair: the first option's probe with the second option's flags added; both predicates that are purely about the
    # generated text / files of their own option must still hold.  Only options without probe-specific bodies are paired.
    o2 = T[name2]
    cli2, pct2 = o2["spellings"][sj]
    P = Probe(flex, cli=list(cli) + list(cli2), pct=list(pct) + list(pct2), **kw)
    try:
        m = o["pred"](P)
        if m:
            res["msgs"].append(("%s with %s" % (name, name2), m))
            res["spec"] = P.spec
            res["flex_stderr"] = P.stderr[-300:]
    finally:
        P.close()
    res["pair"] = name2
    return res


# ------------------------------------------------------------------ order independence / spelling parity
# Options that do not interact: the generated scanner must not depend on the order in which two of them are written, nor on whether
# they are written as %option or on the command line.
ORDER_OPTS = ["7bit", "8bit", "align", "noalign", "array", "pointer", "backup", "batch", "interactive", "caseless", "caseful", "debug", "nodebug", "default", "nodefault",
              "ecs", "noecs", "meta-ecs", "nometa-ecs", "line", "noline", "main", "nomain", "perf-report", "reject", "noreject", "stack", "nostack", "stdinit", "nostdinit",
              "unistd", "nounistd", "verbose", "warn", "nowarn", "yylineno", "noyylineno", "yymore", "noyymore", "yywrap", "noyywrap", "noyyinput", "noyyunput",
              "noyy_scan_bytes", "noyyget_text", "always-interactive", "never-interactive", "posix", "lex-compat", "bison-bridge", "reentrant", "read", "noread"]
ORDER_BODY = "%%\nabc     return 1;\n[a-z]+  return 2;\n\\n      return 3;\n.       return 4;\n%%\n"
CLI_FORM = {"7bit": "-7", "8bit": "-8", "array": "--array", "pointer": "--pointer", "caseless": "-i", "nodefault": "-s", "noline": "-L", "nowarn": "-w", "verbose": "-v",
            "batch": "-B", "interactive": "-I", "debug": "-d", "backup": "-b", "lex-compat": "-l", "posix": "-X", "perf-report": "-p", "reentrant": "-R"}


def _base(o):
    return o[2:] if o.startswith("no") and o not in ("nodefault",) or o == "nodefault" else o


def order_job(args):
    """(a, b): scanners from '%option a' + '%option b' in both orders must be identical; so must the command-line spelling of either"""
    a, b = args
    flex = build.get_flex()
    wd = H.mkscratch("c19o")
    res = {"pair": (a, b), "msgs": [], "runs": 0}
    try:
        def gen(pct, cli, name):
            # an option moved to the command line leaves an empty line behind, so that the line numbers of the rules stay the same
            open(os.path.join(wd, "o.l"), "w").write("".join(("%%option %s\n" % x) if x else "\n" for x in pct) + ORDER_BODY)
            p = subprocess.run([flex.exe] + list(cli) + ["-o", name, "o.l"], cwd=wd, env=H.ENV, stdin=subprocess.DEVNULL, stdout=subprocess.PIPE, stderr=subprocess.PIPE, timeout=60)
            res["runs"] += 1
            out = None
            if os.path.exists(os.path.join(wd, name)):
                out = open(os.path.join(wd, name), "rb").read()
                os.unlink(os.path.join(wd, name))
            # line numbers of the input shift with the number of %option lines: compare with directives removed
            if out is not None:
                out = re.sub(rb'(?m)^#line \d+ "o\.l"\n', b"", out)
                out = re.sub(rb'(?m)^#line \d+ "x\.c"\n', b"", out)
            return p.returncode, out, p.stderr.decode("latin-1")
        r1 = gen([a, b], [], "x.c")
        r2 = gen([b, a], [], "x.c")
        if (r1[0] == 0) != (r2[0] == 0):
            res["msgs"].append(("order-accept", "'%%option %s' then '%%option %s' exits %s, the other order exits %s (%s | %s)" % (a, b, r1[0], r2[0], r1[2][-100:].strip(), r2[2][-100:].strip())))
        elif r1[0] == 0 and r1[1] != r2[1]:
            res["msgs"].append(("order-output", "the scanner generated for '%%option %s' + '%%option %s' depends on the order of the two lines" % (a, b)))
        for x, y in ((a, b), (b, a)):
            if x in CLI_FORM:
                r3 = gen([y, ""] if x == b else ["", y], [CLI_FORM[x]], "x.c")
                # one %option line fewer: directive numbers differ but were removed above
                if (r3[0] == 0) != (r1[0] == 0):
                    res["msgs"].append(("cli-accept", "%s on the command line with '%%option %s' exits %s, both as %%option exit %s" % (CLI_FORM[x], y, r3[0], r1[0])))
                elif r1[0] == 0 and r3[1] != r1[1]:
                    res["msgs"].append(("cli-output", "%s on the command line with '%%option %s' gives a different scanner than '%%option %s %s'" % (CLI_FORM[x], y, x, y)))
        return res
    finally:
        shutil.rmtree(wd, ignore_errors=True)


# -C options "may be freely mixed, and are cumulative"; -f and -F are documented as -Cfr and -CFr
CUMULATIVE = [(["-Ce", "-Cm"], ["-Cem"]), (["-Cm", "-Ce"], ["-Cem"]), (["-Cf", "-Ca"], ["-Cfa"]), (["-Ca", "-Cf"], ["-Cfa"]), (["-Cf", "-Ce"], ["-Cfe"]),
              (["-CF", "-Ce", "-Ca"], ["-CFea"]), (["-Ce", "-Ca", "-Cm"], ["-Ceam"]), (["-Cr", "-Cem"], ["-Crem"]), (["-C", "-Ce"], ["-Ce"]), (["-Ca", "-C"], ["-Ca"]),
              (["-f", "-Ca"], ["-Cfra"]), (["-F", "-Ca"], ["-CFra"]), (["-f", "-Ce"], ["-Cfre"]), (["-F", "-Ce"], ["-CFre"]), (["-Ca", "-f"], ["-Cafr"]),
              (["-f"], ["-Cfr"]), (["-F"], ["-CFr"])]


def cumulative_job(args):
    sep, comb = args
    flex = build.get_flex()
    wd = H.mkscratch("c19c")
    res = {"msgs": [], "runs": 0}
    try:
        open(os.path.join(wd, "o.l"), "w").write("%option noyywrap\n" + ORDER_BODY)
        outs = []
        for cli in (sep, comb):
            p = subprocess.run([flex.exe] + list(cli) + ["-o", "x.c", "o.l"], cwd=wd, env=H.ENV, stdin=subprocess.DEVNULL, stdout=subprocess.PIPE, stderr=subprocess.PIPE, timeout=60)
            res["runs"] += 1
            pth = os.path.join(wd, "x.c")
            outs.append((p.returncode, open(pth, "rb").read() if os.path.exists(pth) else None))
            if os.path.exists(pth):
                os.unlink(pth)
        if (outs[0][0] == 0) != (outs[1][0] == 0):
            res["msgs"].append(("cumulative-accept", "flex %s exits %s, flex %s exits %s" % (" ".join(sep), outs[0][0], " ".join(comb), outs[1][0])))
        elif outs[0][0] == 0 and outs[0][1] != outs[1][1]:
            res["msgs"].append(("cumulative-output", "flex %s and flex %s generate different scanners although -C options are cumulative (and -f / -F are -Cfr / -CFr)" % (" ".join(sep), " ".join(comb))))
        return res
    finally:
        shutil.rmtree(wd, ignore_errors=True)


# options whose effect is independent of the others and whose flags can be added to any probe
NEUTRAL = ["align", "ecs", "noecs", "meta-ecs", "batch", "8bit", "noline", "nounistd", "verbose", "nowarn", "backup", "never-interactive", "always-interactive",
           "yylineno", "debug", "perf-report", "stack", "yymore", "reject"]
PAIR_FIRST = ["outfile", "header-file", "tables-file", "case-insensitive", "prefix", "yylineno", "array", "pointer", "stdinit", "nodefault", "noline",
              "yyterminate", "bufsize", "hooks", "noyyread", "noyyalloc", "full", "fast", "full-tokens", "read", "debug", "yydecl", "stack", "interactive",
              "noyy_scan_bytes", "noyyget_text", "posix", "lex-compat"]
INCOMPAT = {("interactive", "batch"), ("full", "meta-ecs"), ("fast", "meta-ecs"), ("full-tokens", "meta-ecs"), ("full", "reject"), ("fast", "reject"),
            ("full-tokens", "reject"), ("array", "pointer"), ("pointer", "array"), ("lex-compat", "reject"), ("noline", "debug"),
            ("full", "always-interactive"), ("fast", "always-interactive"), ("full-tokens", "always-interactive"), ("interactive", "never-interactive"),
            ("full", "noecs"), ("fast", "noecs"), ("full-tokens", "noecs"), ("nodefault", "debug"), ("yylineno", "reject"), ("full-tokens", "align"),
            ("lex-compat", "yymore"), ("stdinit", "stdinit"), ("yylineno", "yylineno"), ("debug", "debug"), ("stack", "stack"),
            ("interactive", "always-interactive"), ("noline", "noline")}


def run(tier):
    ck = Check("C19", tier, "exploration")
    ck.flex()
    quick = tier == "quick"
    T = OPTIONS()
    jobs = []
    for o in T:
        for si in range(len(o["spellings"])):
            jobs.append((o["name"], si, None, None))
    names = {o["name"]: o for o in T}
    pairs = []
    for a in PAIR_FIRST:
        for b in NEUTRAL:
            if a == b or (a, b) in INCOMPAT or a not in names or b not in names:
                continue
            if a in ("full", "fast", "full-tokens") and b in ("ecs",):
                continue
            if a in ("lex-compat", "posix") and b in ("batch",):
                pass
            # the second option is given as %option: -C letters on the command line are not cumulative across separate -C flags
            sj = [k for k, (c, q) in enumerate(names[b]["spellings"]) if q and not c][0]
            pairs.append((a, 0, b, sj))
            if not quick and len(names[a]["spellings"]) > 1:
                pairs.append((a, len(names[a]["spellings"]) - 1, b, sj))
    if quick:
        pairs = pairs[::3]
    jobs += pairs
    n1 = n2 = 0
    bad = 0
    held = set()          # options whose predicate was evaluated and held in at least one spelling (measured, for distinct_nontrivial)
    for j, res in pmap(evaluate, jobs, check=ck):
        if "worker_exception" in res:
            ck.broken.append("worker failed on %s: %s" % (j, res["worker_exception"]))
            continue
        if j[2] is None:
            n1 += 1
        else:
            n2 += 1
        for what, m in res["msgs"]:
            bad += 1
            cli, pct = res["spelling"]
            sp = " ".join(list(cli) + (["%option " + " ".join(pct)] if pct else [])) or "(default)"
            if j[2] is None:
                sig = "C19:option=%s:%s" % (j[0], sp)
            else:
                sig = "C19:pair=%s+%s" % (j[0], j[2])
            ck.violation(sig, "option %s given as [%s]: %s" % (what, sp, m), files={"p.l": res.get("spec", "")}, case={"flex_stderr": res.get("flex_stderr")},
                         replay={"module": "vflib.checks.c19", "func": "evaluate", "args": list(j)})
        if not res["msgs"] and j[2] is None:
            held.add(j[0])
        if len(ck.samples) < 10 and j[2] is None:
            ck.sample({"option": j[0], "spelling": res["spelling"]})
    # order independence and spelling parity over all unordered pairs of distinct options (a pair of an option and its own negation is
    # order dependent by definition and is left out)
    opairs = [(a, b) for i, a in enumerate(ORDER_OPTS) for b in ORDER_OPTS[i + 1:] if (a[2:] if a.startswith("no") else a) != (b[2:] if b.startswith("no") else b)
              and not ({a, b} <= {"7bit", "8bit"}) and not ({a, b} <= {"array", "pointer"}) and not ({a, b} <= {"batch", "interactive"})
              and not ({a, b} <= {"caseless", "caseful"}) and not ({a, b} <= {"default", "nodefault"})
              # documented interactions: the interactive family overrides one another, main implies noyywrap
              and not ({a, b} <= {"batch", "interactive", "always-interactive", "never-interactive"})
              and not ("main" in (a, b) and ({a, b} & {"yywrap", "noyywrap"}))]
    nord = 0
    for j, res in pmap(order_job, opairs, check=ck):
        if "worker_exception" in res:
            ck.broken.append("order worker failed on %s: %s" % (j, res["worker_exception"]))
            continue
        nord += res["runs"]
        for kind, m in res["msgs"]:
            ck.violation("C19:%s:%s+%s" % (kind, j[0], j[1]), m, case={"pair": j}, replay={"module": "vflib.checks.c19", "func": "order_job", "args": list(j)})
    for j, res in pmap(cumulative_job, [(a, b) for a, b in CUMULATIVE], check=ck):
        if "worker_exception" in res:
            ck.broken.append("cumulative worker failed on %s: %s" % (j, res["worker_exception"]))
            continue
        nord += res["runs"]
        for kind, m in res["msgs"]:
            ck.violation("C19:%s:%s" % (kind, " ".join(j[0])), m, case={"separate": j[0], "combined": j[1]},
                         replay={"module": "vflib.checks.c19", "func": "cumulative_job", "args": [list(j[0]), list(j[1])]})
    ck.cov["cumulative_C_probes"] = len(CUMULATIVE)
    ck.cov["order_parity_runs"] = nord
    ck.cov["order_parity_pairs"] = len(opairs)
    ck.cov.update(evaluations=n1 + n2 + nord, distinct_nontrivial=len(held), options_in_table=len(T), single_option_probes=n1, pair_probes=n2,
                  rule="bound 1: every option of the table in every spelling (short and long command-line form, %option) with an executable predicate "
                       "from the manual (files written, symbols present/absent in nm, a probe program compiles, links and prints the expected "
                       "tokens/values); bound 2: the probe of one option with the flags of a second, independent option added must still satisfy "
                       "the first option's predicate; distinct_nontrivial = number of distinct options of the table whose predicate was evaluated and held in at least one spelling during this run")
    ck.assumptions += ["documented contradictions (-Cf with -Cm/-I/-CF, -l and -+ conflicts, REJECT with full tables) are C02's refusal table",
                       "-S (skeleton file) and %option rewrite are flex-development options and are not probed"]
    ck.guard(n1 > 100, "too few probes: %d" % n1)
    return ck.finish()
