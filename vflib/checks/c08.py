"""C08 - yymore / yyless / yyunput / yyinput edit the input stream as documented
(DESIGN.md section 2, C08): deviation-bounded exploration of action-operation
histories against the deque model of csrc/refscan.h."""
from .. import regex as R, harness as H, bufharness as BH
from ..check import Check, pmap

A, B, NL = R.lit('a'), R.lit('b'), R.lit(10)
AB = R.cset(b'ab')
DOT = ('set', R.DOT)


def scanners(api, less3=False):
    ops = [H.OP_LESS, H.OP_UNPUT, H.OP_INPUT1, H.OP_INPUT2, H.OP_INPUT3, H.OP_MORE, H.OP_RETURN]
    act = H.ops_action(ops, api, less3=less3)
    mk = lambda *rs: [H.Rule(r[0], trail=r[1] if len(r) > 1 else None, scs=["S"], action=act) for r in rs]
    return ops, [
        ("runs", mk((R.plus(A),), (R.plus(B),), (NL,), (DOT,))),
        ("backup", mk((R.cat(A, B),), (A,), (B,))),
        ("trail", mk((R.plus(AB), NL), (AB,), (NL,))),
    ]


def jobs_for(tier):
    quick = tier == "quick"
    L = 4 if quick else 5
    dev = 2 if quick else 3
    jobs = []
    for api in ("NR", "R", "C99"):
        ops, scs = scanners(api)
        for name, rules in scs:
            for array in (0, 1):
                for lineno in (0, 1):
                    opts = (["reentrant"] if api == "R" else []) + (["array"] if array else []) + (["yylineno"] if lineno else [])
                    knobs = {"VF_OPMASK": H.opmask(*ops), "VF_BUDGET_DEFAULT": dev, "VF_BUDGET_TOTAL": dev,
                             "VF_BUFSIZES": "0,1,2,3,4" if quick else "0,1,2,3,4,5,8", "VF_UNPUT_CHARS": '"ab\\n"',
                             "VF_OPS_PER_ACTION": 2}
                    if lineno:
                        knobs["VF_CHECK_LINENO"] = 1
                    g = H.Group([("S", True)], rules, "S", b"ab\n", L,
                                label="%s/%s/%s%s" % (name, api, "array" if array else "pointer", "/yylineno" if lineno else ""))
                    jobs.append(dict(groups=[g], options=opts, api=api, cdefs=(["VF_ARRAY"] if array else []), knobs=knobs,
                                     tag="%s-%s-%d-%d" % (name, api, array, lineno), driver_args=["-H", "80"]))
                    # the same histories on in-memory sources (yy_scan_string / yy_scan_bytes / yy_scan_buffer): buffers that are never
                    # refilled take their own path through yy_get_next_buffer (a token ending exactly at the end of the buffer)
                    if not lineno and (not quick or name != "trail"):
                        for src in (1, 2, 3):
                            kn = dict(knobs, VF_BUFSIZES="0")
                            jobs.append(dict(groups=[g], options=opts, api=api, cdefs=(["VF_ARRAY"] if array else []) + ["VF_SOURCE_SCAN=%d" % src], knobs=kn,
                                             tag="%s-%s-%d-scan%d" % (name, api, array, src), driver_args=["-H", "80"]))
    # yyless() called from a function in section 3 (the skeleton redefines it there): same histories, same model
    for api in ("NR", "R", "C99"):
        ops, scs = scanners(api, less3=True)
        for name, rules in scs[:2] if quick else scs:
            for array in (0, 1):
                for lineno in (0, 1):
                    opts = (["reentrant"] if api == "R" else []) + (["array"] if array else []) + (["yylineno"] if lineno else [])
                    knobs = {"VF_OPMASK": H.opmask(*ops), "VF_BUDGET_DEFAULT": dev, "VF_BUDGET_TOTAL": dev, "VF_BUFSIZES": "0,1,3", "VF_UNPUT_CHARS": '"a\\n"',
                             "VF_OPS_PER_ACTION": 2}
                    if lineno:
                        knobs["VF_CHECK_LINENO"] = 1
                    g = H.Group([("S", True)], rules, "S", b"ab\n", L, label="%s/%s/%s/section3%s" % (name, api, "array" if array else "pointer", "/yylineno" if lineno else ""))
                    jobs.append(dict(groups=[g], options=opts, api=api, cdefs=(["VF_ARRAY"] if array else []) + ["VF_LESS3"], knobs=knobs,
                                     tag="%s-%s-%d-%d-less3" % (name, api, array, lineno), driver_args=["-H", "80"]))
    return jobs


def signature(v):
    lab = v["label"].split("/")
    what = v.get("what", v.get("msg", "fatal"))
    return "C08:%s:%s:%s" % (lab[1] + ("-array" if "array" in lab else ""), lab[0], what)


def run(tier):
    ck = Check("C08", tier, "model_checking")
    ck.flex()
    tot = dict(executions=0, tokens=0, choice_points=0, op_effects=0, nontrivial=0, inputs=0, expected_fatals=0, horizons=0)
    ops_hist = [0] * 16
    for job, res in pmap(H.run_groups_job, jobs_for(tier), check=ck):
        if "worker_exception" in res:
            ck.broken.append("worker failed on %s: %s" % (job["tag"], res["worker_exception"]))
            continue
        if "build_failure" in res:
            bf = res["build_failure"]
            if H.harness_own_error(bf):
                ck.broken.append("harness does not compile: " + bf["stderr"][:300])
            else:
                ck.violation("C08:%s-refused:%s" % (bf["stage"], job["tag"]), "%s failed on an ops scanner: %s" % (bf["stage"], bf["stderr"][-300:]),
                             files={"s.l": bf["spec"]}, case={"stderr": bf["stderr"]})
            continue
        sm = res["summary"]
        if sm is None:
            ck.violation("C08:driver-crash:" + job["tag"], "harness scanner died (rc=%s): %s" % (res["rc"], (res["hard_error"] or res["stderr"])[-300:]),
                         files={"s.l": res.get("spec", ""), "s_tables.h": res.get("tables", "")}, case={"stderr": res["stderr"]})
            continue
        for k in tot:
            tot[k] += sm.get(k, 0)
        for i, n in enumerate(sm["ops"]):
            ops_hist[i] += n
        if sm.get("overflow") or sm.get("aborted"):
            ck.exhaustive = False
        for v in res["viols"]:
            ck.violation(signature(v), "%s: input %s bufsize %s choices %s: %s (expected %s/%s, observed %s/%s)" % (
                v["label"], v.get("input"), v.get("bufsize"), v.get("choices"), v.get("what", v.get("msg")),
                v.get("exp_rule"), v.get("exp_len"), v.get("obs_rule"), v.get("obs_len")),
                case={"cmd": v["cmd"], "viol": {k: v[k] for k in v if k not in ("spec", "tables", "cmd")}},
                files={"s.l": v["spec"], "s_tables.h": v["tables"]})
        ck.sample({"scanner": job["groups"][0].label, "executions": sm["executions"], "ops": sm["ops"]})
    # yyinput() across buffers (round-7 seed C08-r7m2): the buffer-history driver, where actions may call yyinput() up to k times and
    # push an include buffer, yywrap() answers stop / new yyin / new buffer / pop back / delete + switch to a saved buffer, and the
    # user creates, switches, flushes, restarts and scans in-memory buffers between calls.  yyinput() must deliver the next byte of
    # the buffer that is current after yywrap() had its say, and its end-of-input value only when yywrap() said 1.
    # bound 3 in both tiers (the thorough tier adds read sizes): bound 4 with yyinput() in the menu was started twice and did not finish
    # within 15 minutes on a loaded machine, so it is not registered (C11's thorough tier runs bound 4 without yyinput())
    dev = 3
    full = 0x1fff & ~(1 << 12)
    bjobs = []
    for api in ("NR", "R", "C99"):
        for ro in ((2,) if tier == "quick" else (1, 2, None)):
            kn = {"VF_BUDGET_DEFAULT": dev, "VF_BUDGET_TOTAL": dev, "VF_CALLMASK": full, "VF_MAX_OPS": dev, "VF_ACTION_PUSH": 1, "VF_ACTION_INPUT": 1,
                  "VF_SAVED_SWITCH": 1}
            if ro:
                kn["VF_READ_ONE"] = ro
            bjobs.append(BH.make_job(api, [None], kn, "bufinput-%s-%s" % (api, ro), options=["noyyalloc", "noyyrealloc", "noyyfree"], cdefs=["VF_LEDGER"]))
    bt = BH.run_jobs(ck, "C08", bjobs)
    tot["executions"] += bt["executions"]; tot["tokens"] += bt["tokens"]; tot["choice_points"] += bt["choice_points"]
    tot["nontrivial"] += bt["nontrivial"]; tot["op_effects"] += bt["inputs"]
    ck.cov.update(yyinput_across_buffers=dict(executions=bt["executions"], yyinput_calls=bt["inputs"], yyinput_at_end_of_all_input=bt["input_eofs"],
                                              yywrap_calls=bt["yywraps"]))
    ck.guard(bt["inputs"] > 1000 and bt["input_eofs"] > 100, "yyinput() across buffers hardly exercised: %s" % bt)
    ck.cov.update(states=tot["choice_points"], transitions=tot["op_effects"], traces_validated_against_impl=tot["executions"],
                  evaluations=tot["executions"], distinct_nontrivial=tot["nontrivial"], tokens_compared=tot["tokens"],
                  inputs=tot["inputs"], expected_pushback_overflows=tot["expected_fatals"], horizon_cuts=tot["horizons"],
                  op_histogram=dict(zip(["none", "yyless", "yyunput", "yyinput", "yyinput*2", "yyinput*3", "yymore", "yyreject",
                                         "yybegin", "push", "pop", "top", "setbol", "return", "setline", "-"], ops_hist)),
                  rule="states = choice points visited, transitions = operations applied and compared; an execution = one input x "
                       "buffer size x choice vector (operation per action, arguments exhaustive) run through the real yylex() in lock "
                       "step with the deque model; non-trivial = >= 2 tokens from >= 2 rules")
    ck.assumptions += ["one operation per action; combinations the manual leaves undefined are not generated (yytext after yyunput under "
                       "%pointer, yyless below the yymore prefix, yymore with yyinput/yyunput in one action); no '^' rules in these scanners",
                       "'flex scanner push-back overflow' is accepted only for explicit buffers of <= 8 bytes (documented capacity limit)",
                       "yyinput() at end of input may return 0 or EOF (the manual shows both)"]
    ck.guard(tot["executions"] > 10000, "too few executions: %d" % tot["executions"])
    for i in (1, 2, 3, 4, 5, 6, 13):
        ck.guard(ops_hist[i] > 0, "operation %d never exercised" % i)
    return ck.finish()
