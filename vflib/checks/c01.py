"""C01 - longest match / first rule / pattern language against an independent
reference (DESIGN.md section 2, C01)."""
import itertools, re
from .. import regex as R, refsem, specgen, spellings, harness as H
from ..check import Check, pmap

ALPHA = b"ab\nc"


def tc_strings(asts_tagged, limit=400):
    """Transition cover of the reference DFA of a rule set: access(q).c and
    access(q).c.d for every state q and classes c, d."""
    d = refsem.build_dfa(asts_tagged)
    acc = d.access_strings()
    out = set()
    reps = [r[0] for r in d.reps]
    for q, s in acc.items():
        for c in reps:
            out.add(s + bytes([c]))
            for e in reps:
                out.add(s + bytes([c, e]))
            if len(out) > limit:
                return sorted(out)[:limit]
    return sorted(out)


def ast_groups(k, L):
    groups = []
    for i, a in enumerate(specgen.asts_upto(k)):
        if R.nullable(a):
            continue
        name = "P%d" % i
        groups.append(H.Group([(name, True)], [H.Rule(a, scs=[name])], name, ALPHA, L, label="ast:" + R.render(a)))
    return groups


def spelling_groups(entries, prefix, L1=1):
    groups = []
    allb = bytes(range(256))
    for i, (text, ast, tag) in enumerate(entries):
        name = "%s%d" % (prefix, i)
        extras = tc_strings([(1, ast)])
        groups.append(H.Group([(name, True)], [H.Rule(ast, scs=[name], text=text)], name, allb, L1, extras,
                              label="spelling:%s:%s" % (tag, text)))
    return groups


def ruleset_groups(L, triples):
    pool = specgen.overlap_pool()
    groups = []
    n = 0
    for x, y in itertools.permutations(range(len(pool)), 2):
        name = "R%d" % n
        n += 1
        rules = [H.Rule(pool[x], scs=[name]), H.Rule(pool[y], scs=[name])]
        groups.append(H.Group([(name, True)], rules, name, ALPHA, L,
                              label="ruleset:%s ; %s" % (R.render(pool[x]), R.render(pool[y]))))
    for tr in itertools.permutations(range(triples), 3):
        name = "R%d" % n
        n += 1
        rules = [H.Rule(pool[i], scs=[name]) for i in tr]
        groups.append(H.Group([(name, True)], rules, name, ALPHA, L,
                              label="ruleset:" + " ; ".join(R.render(pool[i]) for i in tr)))
    return groups


def big_groups():
    """Rule sets large enough to push the generator's arrays past their initial sizes."""
    groups = []
    # (1) 260 keywords over {a,b,c,d} of length 4 + identifier + catch-alls: many rules, back-up states
    words = ["".join(w) for w in itertools.product("abcd", repeat=4)][:260]
    rules = [H.Rule(R.string(w), scs=["BIG1"]) for w in words]
    rules.append(H.Rule(R.plus(R.cset(b"abcd")), scs=["BIG1"]))
    rules.append(H.Rule(R.plus(R.cset(b" \n")), scs=["BIG1"]))
    tagged = [(i + 1, r.full_ast()) for i, r in enumerate(rules)]
    groups.append(H.Group([("BIG1", True)], rules, "BIG1", b"abcd e\n", 4, tc_strings(tagged, 6000), label="big:keywords"))
    # (2) many distinct character classes (ccl table growth) and counted repeats (NFA growth)
    rules = []
    for i in range(120):
        lo = 33 + (i % 60)
        st = frozenset(range(lo, lo + 3 + i % 5)) | {ord('0') + i % 10}
        rules.append(H.Rule(R.cat(R.lit('x'), R.rep(('set', st), 2, 6), R.lit(';')), scs=["BIG2"]))
    tagged = [(i + 1, r.full_ast()) for i, r in enumerate(rules)]
    groups.append(H.Group([("BIG2", True)], rules, "BIG2", b"x;0", 3, tc_strings(tagged, 6000), label="big:classes"))
    return groups


def classy_groups(n, start=0):
    """Medium-sized rule sets (3..40 rules) of class-heavy patterns over [a-z0-9], each alone in its own specification with the
    default (compressed) tables: the table packer's templates, protos and interior fits depend on the whole rule set, and a
    packing slip loses one (state, class) transition - so the inputs are the transition cover of each rule set's reference
    automaton (round-4 seed C01-r4m2)."""
    sym = b"abcdefghijklmnopqrstuvwxyz0123456789"
    gs = []
    for i in range(start, start + n):
        x = (i * 2654435761 + 12345) & 0xffffffff

        def nxt():
            nonlocal x
            x = (x * 1103515245 + 12345) & 0x7fffffff
            return x >> 8

        def cls(lo, hi):
            k = lo + nxt() % (hi - lo + 1)
            return ('set', frozenset(sym[nxt() % len(sym)] for _ in range(k)))

        def word(lo, hi):
            return R.string(bytes(sym[nxt() % 12] for _ in range(lo + nxt() % (hi - lo + 1))))

        rules, seen = [], set()
        for j in range(3 + nxt() % 38):
            form = nxt() % 7
            if form == 0:
                a = R.plus(cls(2, 7))
            elif form == 1:
                a = R.cat(cls(1, 5), R.star(cls(2, 9)))
            elif form == 2:
                a = word(2, 4)
            elif form == 3:
                a = R.cat(word(1, 3), R.star(cls(1, 4)))
            elif form == 4:
                a = R.rep(cls(1, 3), 2, 3)
            elif form == 5:
                a = R.cat(cls(1, 3), word(1, 2), R.opt(cls(1, 2)))
            else:
                a = R.alt(word(1, 3), R.cat(cls(1, 2), R.plus(cls(1, 3))))
            key = R.render(a)
            if key not in seen:
                seen.add(key)
                rules.append(a)
        name = "Y%d" % i
        rs = [H.Rule(a, scs=[name]) for a in rules]
        tagged = [(k + 1, r.full_ast()) for k, r in enumerate(rs)]
        gs.append(H.Group([(name, True)], rs, name, b"a", 0, tc_strings(tagged, 4000), label="classy:%d" % i))
    return gs


def parse_flex_v(stderr):
    st = {}
    for key, pat in (("nfa", r"(\d+)/(\d+) NFA states"), ("dfa", r"(\d+)/(\d+) DFA states"),
                     ("rules", r"(\d+) rules"), ("sc", r"(\d+)/(\d+) start conditions"),
                     ("ccl", r"(\d+)/(\d+) character classes"), ("realloc", r"(\d+) sets of reallocations needed"),
                     ("nxtchk", r"(\d+)/(\d+) base-def entries"), ("templ", r"(\d+) templates")):
        m = re.search(pat, stderr)
        if m:
            st[key] = [int(g) for g in m.groups()]
    return st


def run(tier):
    ck = Check("C01", tier, "model_checking")
    ck.flex()
    quick = tier == "quick"
    L = 5 if quick else 6
    k = 2 if quick else 3
    per = 100
    jobs = []
    knobs = {}

    def add_jobs(groups, tag, per=per, **kw):
        for ci, ch in enumerate(specgen.chunks(groups, per)):
            j = dict(groups=ch, tag="%s-%d" % (tag, ci), knobs=knobs, flex_args=["-v"])
            j.update(kw)
            j["cdefs"] = list(j.get("cdefs", ())) + ["VF_NO_EDGE_COVER"] * 0
            jobs.append(j)

    # simplest first
    add_jobs(spelling_groups(spellings.base_spellings(), "B"), "spell", 50)
    add_jobs(spelling_groups(spellings.setop_spellings(1), "O"), "setop1", 50)
    add_jobs(spelling_groups(spellings.definition_spellings(), "D"), "defs", 50, defs=spellings.DEFS)
    add_jobs(spelling_groups(spellings.caseless_spellings(), "I"), "caseless", 50, options=["case-insensitive"])
    add_jobs(spelling_groups(spellings.posix_repeat_spellings(), "X"), "posix", 50, flex_args=["-v", "--posix"])
    add_jobs(spelling_groups(spellings.posix_repeat_spellings(), "X"), "lexcompat", 50, flex_args=["-v", "-l"])
    add_jobs(ast_groups(min(k, 2), L), "ast")
    add_jobs(ruleset_groups(L, 8 if quick else 12), "rules")
    # the same rule sets through the other matching engines: REJECT tables (accept lists), full and fast tables,
    # and with tiny buffers so that tokens and back-ups straddle refills
    small = dict(knobs={"VF_BUFSIZES": "0,2,3"})
    add_jobs(ruleset_groups(L - 1, 6), "rules+reject", options=["reject"])   # REJECT scanners cannot grow their buffer
    add_jobs(ruleset_groups(L - 1, 6), "rules+Cf", flex_args=["-v", "-Cf"], **small)
    add_jobs(ruleset_groups(L - 1, 6), "rules+CF", flex_args=["-v", "-CF"], **small)
    add_jobs(ruleset_groups(L - 1, 6), "rules+Cem-small", **small)
    add_jobs(big_groups(), "big", 1)
    add_jobs(classy_groups(160 if quick else 1200), "classy", 1)
    # rules active "in the current start condition and line-start state": unqualified and '^' rules against %s / %x conditions, each
    # specification on its own (the activation family of C05, round-6 seed C01-r6m1), and every spelling of a class with NUL in it,
    # alone, so that NUL's equivalence class is the class's own (C04's family, round-6 seed C01-r6m3)
    from .c05 import activation_jobs
    acts = [j for j in activation_jobs(quick) if j["groups"][0].label.endswith("prefix-bol")]
    for j in (acts[::4] if quick else acts):
        jobs.append(dict(groups=j["groups"], tag="activation-" + j["tag"], knobs=knobs, flex_args=["-v"]))
    from .c04 import spelled_class_groups
    for g in spelled_class_groups(3):
        solo = H.Group(g.conds, [g.rules[0]], g.enter, g.alphabet, g.maxlen, g.extras, label=g.label + " (alone)")
        for fa in (["-v", "-8"], ["-v", "-8", "-Cf"], ["-v", "-8", "-C"]):
            jobs.append(dict(groups=[solo], tag="nulclass%s-%s" % ("".join(fa[1:]), g.enter), knobs=knobs, flex_args=fa))
    if not quick:
        add_jobs(spelling_groups(spellings.setop_spellings(2), "OO"), "setop2", 60)
        g3 = [g for g in ast_groups(3, 5)]
        g3 = g3[len(ast_groups(2, 5)):]
        add_jobs(g3, "ast3", 150)

    states = trans = walked = execs = tokens = nontriv = groups_done = 0
    grown = {}
    for job, res in pmap(H.run_groups_job, jobs, check=ck):
        if "worker_exception" in res:
            ck.broken.append("worker failed on %s: %s" % (job["tag"], res["worker_exception"]))
            continue
        if "build_failure" in res:
            bf = res["build_failure"]
            if H.harness_own_error(bf):
                ck.broken.append("harness does not compile: " + bf["stderr"][:300])
                continue
            ck.violation("C01:%s-refused:%s" % (bf["stage"], job["tag"].split("-")[0]),
                         "%s refused a specification made only of documented patterns: %s" % (
                             bf["stage"], bf["stderr"].strip().splitlines()[-1] if bf["stderr"].strip() else ""),
                         case={"stderr": bf["stderr"], "flex_args": job.get("flex_args")}, files={"s.l": bf["spec"]})
            continue
        sm = res["summary"]
        if sm is None:
            ck.violation("C01:driver-crash:" + job["tag"].split("-")[0],
                         "harness scanner died (rc=%s): %s" % (res["rc"], (res["hard_error"] or res["stderr"])[-300:]),
                         case={"stderr": res["stderr"]}, files={"s.l": res.get("spec", ""), "s_tables.h": res.get("tables", "")})
            continue
        states += sm["ref_states"]; trans += sm["ref_edges"]; walked += sm["ref_edges_walked"]
        execs += sm["executions"]; tokens += sm["tokens"]; nontriv += sm["nontrivial"]
        groups_done += res["ngroups"]
        st = parse_flex_v(res["flex_stderr"])
        for kk, v in st.items():
            if kk == "realloc":
                grown["max_realloc_sets"] = max(grown.get("max_realloc_sets", 0), v[0])
            elif len(v) == 2:
                grown["max_" + kk] = max(grown.get("max_" + kk, 0), v[0])
        if sm["fatals"] or sm["horizons"]:
            pass
        for v in res["viols"]:
            if not v.get("confirmed"):
                ck.notes.append("packed-only discrepancy (not confirmed alone): %s" % v["label"])
                # a discrepancy that exists only in the packed spec is still a wrong scanner
                ck.violation("C01:packed:" + v["label"], "differs from the reference only inside the packed spec: " + v["label"],
                             case={"viol": {kk: v[kk] for kk in v if kk not in ("spec", "tables")}})
                continue
            ck.violation("C01:" + v["label"],
                         "%s: on input %s the scanner gave rule %s len %s, the reference rule %s len %s (%s)" % (
                             v["label"], v.get("input"), v.get("obs_rule"), v.get("obs_len"), v.get("exp_rule"),
                             v.get("exp_len"), v.get("what", v.get("msg"))),
                         case={"cmd": v["cmd"], "viol": {kk: v[kk] for kk in v if kk not in ("spec", "tables", "cmd")}},
                         files={"s.l": v["spec"], "s_tables.h": v["tables"]})
        if len(ck.samples) < 8 and job["groups"]:
            g = job["groups"][0]
            ck.sample({"pack": job["tag"], "first_group": g.label, "inputs": sm["inputs"], "tokens": sm["tokens"]})
    ck.cov.update(states=states, transitions=walked, traces_validated_against_impl=execs,
                  reference_edges_total=trans, tokens_compared=tokens, groups=groups_done,
                  evaluations=execs, distinct_nontrivial=nontriv,
                  rule="every group (rule set) x every byte string of length <= L over one representative per byte class "
                       "(all 256 bytes for single-character spellings) + transition cover of the reference DFA, run through "
                       "yylex() in lock step with the reference; non-trivial = input giving >= 2 tokens from >= 2 rules",
                  generator_array_growth=grown)
    ck.assumptions += ["top-level nullable patterns are not generated (a rule matching the empty string loops forever by design)",
                       "reference semantics = vflib/refsem.py (Thompson + subset construction), written from the manual's Patterns chapter",
                       "m4, gcc and libc trusted; C locale"]
    ck.guard(execs > 1000 and nontriv > 100, "too few executions (%d) or non-trivial inputs (%d)" % (execs, nontriv))
    ck.guard(walked * 2 > trans, "reference edge coverage below 50%% (%d of %d)" % (walked, trans))
    return ck.finish()
