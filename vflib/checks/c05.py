"""C05 - start conditions activate exactly the documented rules; the state stack
is LIFO (DESIGN.md section 2, C05)."""
import itertools
from .. import regex as R, harness as H, specgen
from ..check import Check, pmap

X, Y, Z = R.lit('x'), R.lit('y'), R.lit('z')
CONDS = ["INITIAL", "A", "B"]


def lists():
    """The 9 condition lists a rule can carry."""
    out = [None, '*']
    for n in (1, 2, 3):
        for c in itertools.combinations(CONDS, n):
            out.append(list(c))
    return out


def activation_jobs(quick):
    """Every declaration of A and B as %s/%x x every assignment of two rules to condition lists x three writings."""
    jobs = []
    ls = lists()
    n = 0
    for exA, exB in itertools.product((False, True), repeat=2):
        for l1, l2 in itertools.product(ls, repeat=2):
            for style in ("prefix", "scope", "nested", "prefix-bol"):
                if style not in ("prefix", "prefix-bol") and l1 in (None,) and l2 in (None,):
                    continue
                r1 = H.Rule(X, scs=l1, bol=(style == "prefix-bol"))
                r2 = H.Rule(R.alt(X, Y), scs=l2)         # overlaps rule 1 on 'x': first-rule order also matters
                r1.scope_style = r2.scope_style = style.split("-")[0]
                g0 = H.Group([("A", exA), ("B", exB)], [r1, r2], "INITIAL", b"xyz", 2, label="act:%s%s:%s:%s:%s" % (
                    "x" if exA else "s", "x" if exB else "s", l1, l2, style))
                g1 = H.Group([], [], "A", b"xyz", 2, label=g0.label + "@A")
                g2 = H.Group([], [], "B", b"xyz", 2, label=g0.label + "@B")
                jobs.append(dict(groups=[g0, g1, g2], tag="act-%d" % n, knobs={}))
                n += 1
    return jobs


def shared_scope_jobs():
    """Two rules inside one <S>{ } scope, the first with a list of its own (<*>, <A>, <A,B>): its list adds to the scope's conditions for that rule only, and the
    rules after it still belong to exactly the scope's conditions (round-7 seed C05-r7m1)."""
    jobs = []
    n = 0
    for exA, exB in itertools.product((False, True), repeat=2):
        for scope in (["B"], ["A"], ["B", "A"], ["INITIAL", "B"]):
            for own in ('*', ["A"], ["B"], ["INITIAL"], ["A", "B"]):
                # a list inside a scope adds to the scope's conditions (nested lists accumulate), for this rule only
                r1 = H.Rule(X, scs='*' if own == '*' else [c for c in CONDS if c in set(scope) | set(own)])
                r1.prefix_text = "<*>" if own == '*' else "<" + ",".join(own) + ">"
                r2 = H.Rule(R.alt(X, Y), scs=list(scope))
                r3 = H.Rule(Z, scs=list(scope))
                r1.scope_open, r1.in_scope = list(scope), True
                r2.in_scope, r2.emit_prefix = True, False
                r3.in_scope, r3.emit_prefix, r3.scope_close = True, False, True
                g0 = H.Group([("A", exA), ("B", exB)], [r1, r2, r3], "INITIAL", b"xyz", 2, label="shared-scope:%s%s:<%s>{ <%s>x ; x|y ; z }" % (
                    "x" if exA else "s", "x" if exB else "s", ",".join(scope), own if own == '*' else ",".join(own)))
                g1 = H.Group([], [], "A", b"xyz", 2, label=g0.label + "@A")
                g2 = H.Group([], [], "B", b"xyz", 2, label=g0.label + "@B")
                jobs.append(dict(groups=[g0, g1, g2], tag="shared-%d" % n, knobs={}))
                n += 1
    return jobs


def stack_groups(api):
    ops = [H.OP_BEGIN, H.OP_PUSH, H.OP_POP, H.OP_TOP, H.OP_RETURN]
    act = H.ops_action(ops, api)
    rules = [H.Rule(X, scs=["INITIAL"], action=act), H.Rule(X, scs=["A"], action=act), H.Rule(R.cat(X, X), scs=["A"], action=act),
             H.Rule(X, scs=["B"], action=act), H.Rule(Y, scs='*', action=act), H.Rule(Z, scs=None, action=act)]
    g = H.Group([("A", False), ("B", True)], rules, "INITIAL", b"xy", 0, [b"xxxxx", b"xyxzx", b"xxxxxxx"], label="stack")
    return ops, [g, H.Group([], [], "B", b"xy", 0, [b"xxxx", b"zxyx"], label="stack@B")]


def run(tier):
    ck = Check("C05", tier, "model_checking")
    ck.flex()
    quick = tier == "quick"
    jobs = []
    acts = activation_jobs(quick)
    if quick:
        acts = acts[::3] + acts[1::7] + acts[3::8]       # every third spec (each writing in turn) + a second stride; thorough runs all
    jobs += acts
    sh = shared_scope_jobs()
    jobs += sh[::2] if quick else sh
    depth = 4 if quick else 8
    for api in ("NR", "R", "C99"):
        ops, gs = stack_groups(api)
        o = ["stack"] + (["reentrant"] if api == "R" else [])
        base = {"VF_OPMASK": H.opmask(*ops), "VF_BUDGET_DEFAULT": depth, "VF_BUDGET_TOTAL": depth, "sc_args": ["INITIAL", "A", "B"]}
        jobs.append(dict(groups=gs, tag="stack-" + api, api=api, options=o, knobs=dict(base), driver_args=["-H", "100"]))
        jobs.append(dict(groups=gs, tag="stack-underflow-" + api, api=api, options=o, cdefs=["VF_ALLOW_UNDERFLOW"],
                         knobs=dict(base, VF_BUDGET_DEFAULT=3, VF_BUDGET_TOTAL=3), driver_args=["-H", "100"]))
        # condition chosen and stack pre-filled through the API before the first yylex(): growth boundaries of the stack
        jobs.append(dict(groups=gs, tag="stack-preload-" + api, api=api, options=o,
                         knobs=dict(base, VF_BUDGET_DEFAULT=2, VF_BUDGET_TOTAL=2, VF_BEGIN_OUTSIDE=1,
                                    VF_PRELOADS="0,1,24,25,26,49,50,51,101"), driver_args=["-H", "400"]))
        # the same on a scanner that has never been started - no yybegin() before the pushes either (round-5 seed C05-r5m1)
        jobs.append(dict(groups=gs[:1], tag="stack-preload-fresh-" + api, api=api, options=o,
                         knobs=dict(base, VF_BUDGET_DEFAULT=2, VF_BUDGET_TOTAL=2, VF_BEGIN_OUTSIDE=2, VF_PRELOADS="0,1,2,3,26"), driver_args=["-H", "400"]))
    tot = dict(executions=0, tokens=0, choice_points=0, op_effects=0, nontrivial=0, inputs=0, expected_fatals=0)
    ops_hist = [0] * 16
    nspecs = 0
    for job, res in pmap(H.run_groups_job, jobs, check=ck):
        if "worker_exception" in res:
            ck.broken.append("worker failed on %s: %s" % (job["tag"], res["worker_exception"]))
            continue
        if "build_failure" in res:
            bf = res["build_failure"]
            if H.harness_own_error(bf):
                ck.broken.append("harness does not compile (%s): %s" % (job["tag"], bf["stderr"][:400]))
            else:
                ck.violation("C05:%s-refused:%s" % (bf["stage"], job["groups"][0].label), "%s failed [%s]: %s" % (bf["stage"], job["tag"], bf["stderr"][-300:]),
                             files={"s.l": bf["spec"]}, case={"stderr": bf["stderr"]})
            continue
        sm = res["summary"]
        if sm is None:
            ck.violation("C05:driver-crash:" + job["tag"], "harness scanner died (rc=%s): %s" % (res["rc"], (res["hard_error"] or res["stderr"])[-300:]),
                         files={"s.l": res.get("spec", ""), "s_tables.h": res.get("tables", "")}, case={"stderr": res["stderr"]})
            continue
        nspecs += 1
        for k in tot:
            tot[k] += sm.get(k, 0)
        for i, n in enumerate(sm["ops"]):
            ops_hist[i] += n
        if sm.get("overflow") or sm.get("aborted"):
            ck.exhaustive = False
        for v in res["viols"]:
            lab = job["groups"][0].label
            ck.violation("C05:%s:%s" % (lab if lab.startswith("act") else job["tag"], v.get("what", v.get("msg", v["viol"]))),
                         "%s [%s]: condition %s input %s choices %s: %s (expected rule %s sc %s, observed rule %s sc %s; op expected/observed %s/%s)" % (
                             v["label"], job["tag"], v.get("sc"), v.get("input"), v.get("choices"), v.get("what", v.get("msg")),
                             v.get("exp_rule"), v.get("exp_sc"), v.get("obs_rule"), v.get("obs_sc"), v.get("exp_len"), v.get("obs_len")),
                         case={"cmd": v["cmd"], "viol": {k: v[k] for k in v if k not in ("spec", "tables", "cmd")}},
                         files={"s.l": v["spec"], "s_tables.h": v["tables"]})
        if job["tag"].startswith("stack") or len(ck.samples) < 4:
            ck.sample({"job": job["tag"], "spec": job["groups"][0].label, "executions": sm["executions"], "ops": sm["ops"][8:12]})
    ck.cov.update(states=tot["choice_points"] + tot["inputs"], transitions=tot["op_effects"] + tot["tokens"],
                  traces_validated_against_impl=tot["executions"], evaluations=tot["executions"], distinct_nontrivial=tot["nontrivial"],
                  specs=nspecs, expected_underflow_fatals=tot["expected_fatals"],
                  op_histogram={"yybegin": ops_hist[8], "push": ops_hist[9], "pop": ops_hist[10], "top": ops_hist[11], "return": ops_hist[13]},
                  rule="activation: every %s/%x declaration of A,B x every pair of condition lists x 3 writings, every input of length <= 2 over "
                       "{x,y,z} in each of the 3 conditions; stack: every sequence of yybegin/push/pop/top/return (arguments exhaustive) within "
                       "the deviation bound, from an empty stack and from stacks pre-filled to 0..101 entries through the API before the first "
                       "yylex(); yystart()/yy_top_state() compared after every operation")
    ck.assumptions += ["nested scopes are read as the union of the enclosing condition lists (each scope prefixes the enclosed rules)",
                       "yy_top_state() on an empty stack returns the current condition (manual)",
                       "restart, buffer switches and end of file leaving the condition unchanged are checked by C10/C11"]
    ck.guard(tot["executions"] > 20000, "too few executions: %d" % tot["executions"])
    ck.guard(tot["expected_fatals"] > 0, "stack underflow never provoked")
    for i in (8, 9, 10, 11):
        ck.guard(ops_hist[i] > 0, "operation %d never exercised" % i)
    return ck.finish()
