"""C06 - line anchors and trailing context select and split tokens as documented
(DESIGN.md section 2, C06)."""
import itertools
from .. import regex as R, harness as H, specgen
from ..check import Check, pmap

A, B, NL = R.lit('a'), R.lit('b'), R.lit(10)
AB = R.cset(b'ab')
ALPHA = b"ab\n"


def heads():
    return [("a", A), ("ab", R.cat(A, B)), ("[ab]", AB), ("a*", R.star(A)), ("a+", R.plus(A)),
            ("(a|ab)", R.alt(A, R.cat(A, B))), ("a?b", R.cat(R.opt(A), B)), ("[ab]+", R.plus(AB))]


def trails():
    return [("b", B), ("ab", R.cat(A, B)), ("\\n", NL), ("b*", R.star(B)), ("b+", R.plus(B)), ("(b|ab)", R.alt(B, R.cat(A, B))),
            ("b\\n", R.cat(B, NL))]


def competitors():
    return [("a", A), ("b", B), ("ab", R.cat(A, B)), ("abb", R.cat(A, B, B)), ("[ab]+", R.plus(AB)), ("a+", R.plus(A)),
            ("b+", R.plus(B)), ("\\n", NL), ("ba", R.cat(B, A)), ("a\\n", R.cat(A, NL))]


def anchored_forms():
    """(label, Rule kwargs, is_variable) for every form of every r and s."""
    out = []
    for hn, h in heads():
        nullable = R.nullable(h)
        if not nullable:
            out.append(("^" + hn, dict(head=h, bol=True), False))
            out.append((hn + "$", dict(head=h, eol=True), False))
            out.append(("^" + hn + "$", dict(head=h, bol=True, eol=True), False))
        for tn, t in trails():
            if nullable and R.nullable(t):
                continue                        # would match the empty string
            var = R.fixed_len(h) is None and R.fixed_len(t) is None
            out.append((hn + "/" + tn, dict(head=h, trail=t), var))
            if not nullable:
                out.append(("^" + hn + "/" + tn, dict(head=h, trail=t, bol=True), var))
    return out


def groups(L, action="{ }", fixed_only=False, prefix="T", quick=True):
    forms = anchored_forms()
    comps = competitors()
    out = []
    n = 0

    def add(rules_spec, label):
        nonlocal n
        name = "%s%d" % (prefix, n)
        n += 1
        rules = []
        for kw in rules_spec:
            kw = dict(kw)
            act = kw.pop("action", action)
            rules.append(H.Rule(scs=[name], action=act, **kw))
        out.append(H.Group([(name, True)], rules, name, ALPHA, L, label=label))

    for fl, kw, var in forms:
        if fixed_only and var:
            continue
        add([kw], "tc:" + fl)
        cs = comps if not quick else comps[:6] + comps[7:8]
        for cn, c in cs:
            add([kw, dict(head=c)], "tc:%s ; %s" % (fl, cn))
            add([dict(head=c), kw], "tc:%s ; %s" % (cn, fl))
    # '|' chains: the trailing-context rule shares the action of the next rule and vice versa
    for fl, kw, var in forms[::3]:
        if fixed_only and var:
            continue
        add([dict(kw, action="|"), dict(head=R.cat(B, A))], "tc-chain:%s | ba" % fl)
        if not fixed_only:      # a trailing-context rule after a '|' action is made variable by flex (documented warning)
            add([dict(head=R.cat(B, A, A), action="|"), kw], "tc-chain:baa | %s" % fl)
    # two trailing-context rules competing
    for (f1, k1, v1), (f2, k2, v2) in itertools.permutations(forms[::5], 2):
        if fixed_only and (v1 or v2):
            continue
        add([k1, k2], "tc:%s ; %s" % (f1, f2))
    return out


def or_into_eof_probe(args):
    """A '|' action in front of an <<EOF>> rule: the rule falls into the EOF action's code, and its own set-up (beginning-of-line
    state included) must still happen - directed probe for every back end and table family (round-7 seed C06-r7m3; under --emit=c99
    the construct did not even compile on the unchanged tree)."""
    import os, shutil, subprocess
    flex_exe, api, tb, incdir = args
    wd = H.mkscratch("c06e")
    try:
        ys = "" if api == "nr" else "yyscanner"
        opts = "noyywrap" + (" reentrant" if api == "r" else "") + (' emit="c99"' if api == "c99" else "")
        if api == "nr":
            main = "int main(void){ int t; yy_scan_string(\"end\\nx yend\\nzx\"); while ((t = yylex()) > 0) printf(\"%d \", t); printf(\"n=%d\\n\", n_eof); return 0; }"
        else:
            main = ("int main(void){ int t; yyscan_t s; yylex_init(&s); yy_scan_string(\"end\\nx yend\\nzx\", s); while ((t = yylex(s)) > 0) printf(\"%d \", t);"
                    " printf(\"n=%d\\n\", n_eof); yylex_destroy(s); return 0; }")
        spec = ("%%option %s\n%%{\n#include <stdio.h>\nstatic int n_eof;\n%%}\n%%%%\nend\\n  |\n<<EOF>>  { if (++n_eof == 3) return 0; }\n^x  return 1;\nx  return 2;\n"
                "^z  return 3;\n.|\\n  ;\n%%%%\n%s\n" % (opts, main))
        open(os.path.join(wd, "e.l"), "w").write(spec)
        p = subprocess.run([flex_exe, tb, "-o", "e.c", "e.l"], cwd=wd, env=H.ENV, stdin=subprocess.DEVNULL, stdout=subprocess.PIPE, stderr=subprocess.PIPE, timeout=60)
        if p.returncode != 0:
            return {"viol": "flex failed: " + p.stderr.decode("latin-1")[-300:], "spec": spec}
        c = subprocess.run(["gcc", "-w", "-I" + incdir, "-o", "e.exe", "e.c"], cwd=wd, stdout=subprocess.PIPE, stderr=subprocess.PIPE, timeout=120)
        if c.returncode != 0:
            return {"viol": "the scanner does not compile: " + c.stderr.decode("latin-1")[-300:], "spec": spec}
        r = subprocess.run(["./e.exe"], cwd=wd, stdout=subprocess.PIPE, stderr=subprocess.PIPE, timeout=20)
        out = r.stdout.decode("latin-1").strip()
        # "end\n" -> EOF action (1); "x" at line start -> 1; " y" ; "end\n" -> EOF action (2); "z" at line start -> 3; "x" mid-line -> 2; real EOF (3)
        if out != "1 3 2 n=3":
            return {"viol": "printed %r, expected '1 3 2 n=3' (rc=%s %s)" % (out, r.returncode, r.stderr.decode("latin-1")[-100:]), "spec": spec}
        return {"viol": None}
    except subprocess.TimeoutExpired:
        return {"viol": "the scanner did not finish within 20 s", "spec": spec}
    finally:
        shutil.rmtree(wd, ignore_errors=True)


def run(tier):
    ck = Check("C06", tier, "model_checking")
    ck.flex()
    quick = tier == "quick"
    L = 4 if quick else 6
    jobs = []

    def J(tag, gs, kn, per=50, **kw):
        for ci, ch in enumerate(specgen.chunks(gs, per)):
            j = dict(groups=ch, knobs=dict(kn), tag="%s-%d" % (tag, ci), driver_args=["-H", "80"])
            j.update(kw)
            jobs.append(j)

    J("Cem", groups(L, quick=quick), {})
    J("Cem-B", groups(L - 1, quick=True), {}, flex_args=["-B"])
    J("Cem-I-one", groups(L - 1, quick=True), {"VF_READ_ONE": 1, "VF_BUFSIZES": "0,16"}, flex_args=["-I"])
    J("Cf", groups(L - 1, fixed_only=True, quick=True), {}, flex_args=["-Cf"])
    J("CFe", groups(L - 1, fixed_only=True, quick=True), {}, flex_args=["-CFe"])
    J("Cf-small", groups(L - 1, fixed_only=True, quick=True), {"VF_READ_ONE": 1, "VF_BUFSIZES": "1,2,3"}, flex_args=["-Cf"])
    J("fixed-small", groups(L - 1, fixed_only=True, quick=True), {"VF_READ_ONE": 1, "VF_BUFSIZES": "1,2,3"})
    J("R", groups(L - 1, quick=True), {}, api="R", options=["reentrant"])
    # the same rule sets with their tables loaded from a file: the serialized accepting lists carry the trailing-context flags too
    J("tables-file", groups(L - 1, quick=True), {}, options=['tables-file="s.tables"'], cdefs=['VF_TABLES_FILE="s.tables"'])
    J("C99", groups(L - 1, quick=True), {}, api="C99")
    J("lineno", groups(L - 1, quick=True), {"VF_CHECK_LINENO": 1}, options=["yylineno"])
    # yyinput() moves the scanning position: the next token is at beginning of line iff the last byte read was a newline
    for api in ("NR", "C99"):
        io = [H.OP_INPUT1, H.OP_INPUT2]
        gs = [g for g in groups(L - 1, H.ops_action(io, api), quick=True) if "^" in g.label]
        J("yyinput-" + api, gs, {"VF_OPMASK": H.opmask(*io), "VF_BUDGET_DEFAULT": 1, "VF_BUDGET_TOTAL": 1}, api=api)
    # yymore() before a trailing-context rule: the head/trail split is measured from the start of the new match, not of the kept text
    # (round-5 seed C06-r5m3)
    mo = [H.OP_MORE]
    for api, extra in (("NR", {}), ("R", dict(options=["reentrant"])), ("C99", {}), ("NR", dict(options=["array"], cdefs=["VF_ARRAY"]))):
        tcg = [g for g in groups(L - 1, H.ops_action(mo, api), quick=True) if "/" in g.label or "$" in g.label]
        J("yymore-%s%s" % (api, "-array" if "cdefs" in extra else ""), tcg, {"VF_OPMASK": H.opmask(*mo), "VF_BUDGET_DEFAULT": 1 if quick else 2,
                                                                  "VF_BUDGET_TOTAL": 1 if quick else 2, "VF_BUFSIZES": "0" if quick else "0,16"}, api=api, **extra)
    sb = [H.OP_SETBOL]
    J("setbol", groups(L - 1, H.ops_action(sb), quick=True), {"VF_OPMASK": H.opmask(*sb), "VF_BUDGET_DEFAULT": 1, "VF_BUDGET_TOTAL": 1})

    fx = ck.flex()
    neof = 0
    for job, r in pmap(or_into_eof_probe, [(fx.exe, api, tb, fx.incdir) for api in ("nr", "r", "c99") for tb in ("-Cem", "-Cf", "-CFe", "-C")], check=ck):
        if "worker_exception" in r:
            ck.broken.append("'|' into <<EOF>> probe failed: %s" % r["worker_exception"])
            continue
        neof += 1
        if r["viol"]:
            ck.violation("C06:or-into-eof:%s" % job[1], "'|' action falling into an <<EOF>> rule (%s %s): %s" % (job[1], job[2], r["viol"]), files={"e.l": r.get("spec", "")})
    ck.cov["or_into_eof_probes"] = neof
    tot = dict(executions=0, tokens=0, choice_points=0, nontrivial=0, inputs=0, horizons=0, ref_states=0, ref_edges=0, ref_edges_walked=0)
    ngroups = dangerous = 0
    for job, res in pmap(H.run_groups_job, jobs, check=ck):
        if "worker_exception" in res:
            ck.broken.append("worker failed on %s: %s" % (job["tag"], res["worker_exception"]))
            continue
        if "build_failure" in res:
            bf = res["build_failure"]
            if H.harness_own_error(bf):
                ck.broken.append("harness does not compile (%s): %s" % (job["tag"], bf["stderr"][:400]))
            else:
                ck.violation("C06:%s-refused:%s" % (bf["stage"], job["tag"].split("-")[0]),
                             "%s failed on anchors/trailing-context rule sets [%s]: %s" % (bf["stage"], job["tag"], bf["stderr"][-300:]),
                             files={"s.l": bf["spec"]}, case={"stderr": bf["stderr"], "flex_args": job.get("flex_args")})
            continue
        sm = res["summary"]
        if sm is None:
            ck.violation("C06:driver-crash:" + job["tag"], "harness scanner died (rc=%s): %s" % (res["rc"], (res["hard_error"] or res["stderr"])[-300:]),
                         files={"s.l": res.get("spec", ""), "s_tables.h": res.get("tables", "")}, case={"stderr": res["stderr"]})
            continue
        for k in tot:
            tot[k] += sm.get(k, 0)
        ngroups += res["ngroups"]
        danger = {int(g) for g, ws in res.get("warned", {}).items() if any("dangerous trailing context" in w for w in ws)}
        dangerous += len(danger)
        for v in res["viols"]:
            if v.get("group") in danger:
                continue          # the property excludes rule sets for which flex prints the warning
            ck.violation("C06:%s:%s:%s" % (job["tag"].split("-")[0], v["label"], v.get("what", v.get("msg", v["viol"]))),
                         "%s [%s]: input %s bufsize %s choices %s: %s (expected rule %s len %s, observed rule %s len %s)" % (
                             v["label"], job["tag"], v.get("input"), v.get("bufsize"), v.get("choices"), v.get("what", v.get("msg")),
                             v.get("exp_rule"), v.get("exp_len"), v.get("obs_rule"), v.get("obs_len")),
                         case={"cmd": v["cmd"], "viol": {k: v[k] for k in v if k not in ("spec", "tables", "cmd")}},
                         files={"s.l": v["spec"], "s_tables.h": v["tables"]})
        ck.sample({"job": job["tag"], "first": job["groups"][0].label, "executions": sm["executions"], "dangerous_excluded": len(danger)})
    ck.cov.update(states=tot["ref_states"], transitions=tot["ref_edges_walked"], reference_edges_total=tot["ref_edges"],
                  traces_validated_against_impl=tot["executions"], evaluations=tot["executions"], distinct_nontrivial=tot["nontrivial"],
                  rule_sets=ngroups, rule_sets_with_dangerous_warning_excluded=dangerous, horizon_cuts=tot["horizons"], inputs=tot["inputs"],
                  rule="every form (r/s, r$, ^r, ^r/s, ^r$) of 8 heads x 7 trails alone, with each competitor in both orders, in '|' chains and "
                       "against each other; every input over {a,b,\\n} up to length L through yylex(); the rule competes with its total length, "
                       "yyleng must be a valid split (head in L(r), rest in L(s)), scanning resumes after the head")
    ck.assumptions += ["rule sets for which flex prints 'dangerous trailing context' are excluded, as the property says",
                       "an ambiguous split without that warning is accepted if the observed split is valid",
                       "nullable head with nullable trail not generated; nullable heads loop by design and are compared up to the step horizon"]
    ck.guard(tot["executions"] > 100000, "too few executions: %d" % tot["executions"])
    ck.guard(dangerous * 2 < ngroups, "most rule sets excluded as dangerous (%d of %d)" % (dangerous, ngroups))
    return ck.finish()
