"""C09 - yylineno equals one plus the number of newlines consumed
(DESIGN.md section 2, C09)."""
import itertools
from .. import regex as R, harness as H, bufharness as BH, specgen, spellings as SP
from ..check import Check, pmap

A, B, NL = R.lit('a'), R.lit('b'), R.lit(10)
ALPHA = b"a\nb"


def nl_atoms():
    """(text, ast) atoms that can match a newline without the pattern saying \\n literally, plus the literal forms."""
    ALL = R.ALL
    cs = lambda s: ('set', frozenset(s))
    return [
        ("\\n", NL), ("\\x0a", NL), ("\\012", NL), ('"\\n"', NL),
        ("[a\\n]", cs({97, 10})), ("[^a]", cs(ALL - {97})), ("[^b]", cs(ALL - {98})), ("[[:space:]]", cs(SP.POSIX["space"])),
        ("[[:^alpha:]]", cs(ALL - SP.POSIX["alpha"])), ("[^[:alpha:]]", cs(ALL - SP.POSIX["alpha"])),
        ("[^b]{-}[c]", cs(ALL - {98, 99})), ("[a]{+}[\\n]", cs({97, 10})), ("[a-c]{+}[^a-z]", cs(({97, 98, 99}) | (ALL - set(range(97, 123))))),
        ("(?s:.)", cs(ALL)), ("(?s:[^a])", cs(ALL - {97})), ("{NLDEF}", cs({10, 32})), ("{NEGDEF}", cs(ALL - {97})),
        ("[\\x00-\\x1f]", cs(range(0, 32))), ("(?i:[\\n])", NL), ("(?x: \\n )", NL), ("(a|\\n)", R.alt(A, NL)),
    ]


DEFS = [("NLDEF", "[ \\n]"), ("NEGDEF", "[^a]")]


def pattern_groups(L, action="{ }", api="NR", prefix="N", vartrail=True, bol=False):
    atoms = nl_atoms()
    forms = []
    for t, a in atoms:
        forms += [
            (t, a), ("a" + t, R.cat(A, a)), (t + "a", R.cat(a, A)), (t + "+", R.plus(a)), ("a" + t + "*", R.cat(A, R.star(a))),
            (t + "{2}", R.rep(a, 2, 2)), ("b|" + t, R.alt(B, a)), ("a" + t + "?b", R.cat(A, R.opt(a), B)),
        ]
    groups = []
    for i, (t, a) in enumerate(forms):
        name = "%s%d" % (prefix, i)
        groups.append(H.Group([(name, True)], [H.Rule(a, scs=[name], text=t, action=action)], name, ALPHA, L, label="nl:" + t))
    # trailing context and anchors with newlines
    tc = [
        ("a/\\n", A, NL, False), ("a$", A, None, True), ("[a\\n]+/b", R.plus(('set', frozenset({97, 10}))), B, False),
        ("a\\n/b", R.cat(A, NL), B, False), ("a/[^a]", A, ('set', frozenset(R.ALL - {97})), False),
        ("a\\n/\\nb", R.cat(A, NL), R.cat(NL, B), False), ("[^b]+/\\n\\n", R.plus(('set', frozenset(R.ALL - {98}))), R.cat(NL, NL), False),
        ("a*\\n/\\n*b", R.cat(R.star(A), NL), R.cat(R.star(NL), B), False),
        ("a/\\n+", A, R.plus(NL), False), ("ab/\\n*b", R.cat(A, B), R.cat(R.star(NL), B), False),
        ("a/[a\\n]+b", A, R.cat(R.plus(('set', frozenset({97, 10}))), B), False), ("a\\n/\\n+", R.cat(A, NL), R.plus(NL), False),
        ("[ab]/(\\n|\\n\\n)", ('set', frozenset({97, 98})), R.alt(NL, R.cat(NL, NL)), False),
    ]
    for i, (t, h, tr, eol) in enumerate(tc):
        if not vartrail and t == "a*\\n/\\n*b":
            continue        # variable head and trail: REJECT machinery (no -Cf, buffer cannot grow)
        name = "%sT%d" % (prefix, i)
        rules = [H.Rule(h, trail=tr, eol=eol, scs=[name], text=t, action=action), H.Rule(NL, scs=[name], action=action)]
        groups.append(H.Group([(name, True)], rules, name, ALPHA, L, label="nl-trail:" + t))
    # tokens that contain a NUL before a newline: the line count walks the whole token, not a C string
    nz = [("[a\\0\\n]+", R.plus(('set', frozenset({97, 0, 10})))), ("a\\0\\n", R.cat(A, R.lit(0), NL)), ("\\0\\n\\n", R.cat(R.lit(0), NL, NL)),
          ("(?s:.)+", R.plus(('set', R.ALL)))]
    for i, (t, a) in enumerate(nz):
        name = "%sZ%d" % (prefix, i)
        groups.append(H.Group([(name, True)], [H.Rule(a, scs=[name], text=t, action=action), H.Rule(NL, scs=[name], action=action)], name, b"a\0\n", L,
                              [b"a\0\n\n", b"\0\n\na\n", b"a\0\na\0\n"], label="nl-nul:" + t))
    if bol:
        # '^' rules (only generated for harnesses that do not use yyless/yyunput)
        bl = [("^a\\n", R.cat(A, NL)), ("^\\n", NL), ("^[^b]+", R.plus(('set', frozenset(R.ALL - {98})))), ("^a", A), ("^b\\n?", R.cat(B, R.opt(NL)))]
        for i, (t, a) in enumerate(bl):
            name = "%sB%d" % (prefix, i)
            rules = [H.Rule(a, scs=[name], bol=True, text=t, action=action), H.Rule(NL, scs=[name], action=action),
                     H.Rule(A, scs=[name], action=action)]
            groups.append(H.Group([(name, True)], rules, name, ALPHA, L, label="nl-bol:" + t))
    # '|' chained actions: the first rule's text has the newline, the action belongs to the next rule
    chains = [("a\\n", R.cat(A, NL), "b", B), ("[^a]", ('set', frozenset(R.ALL - {97})), "aa", R.cat(A, A)),
              ("b", B, "a\\n", R.cat(A, NL)), ("(?s:.)a", R.cat(('set', R.ALL), A), "b+", R.plus(B))]
    for i, (t1, a1, t2, a2) in enumerate(chains):
        name = "%sC%d" % (prefix, i)
        rules = [H.Rule(a1, scs=[name], text=t1, action="|"), H.Rule(a2, scs=[name], text=t2, action=action)]
        groups.append(H.Group([(name, True)], rules, name, ALPHA, L, label="nl-chain:%s | %s" % (t1, t2)))
    return groups


def run(tier):
    ck = Check("C09", tier, "model_checking")
    ck.flex()
    quick = tier == "quick"
    L = 4 if quick else 7
    jobs = []

    def J(tag, gs, kn, per=60, **kw):
        for ci, ch in enumerate(specgen.chunks(gs, per)):
            j = dict(groups=ch, knobs=dict(kn), tag="%s-%d" % (tag, ci), driver_args=["-H", "200"], defs=DEFS)
            j.update(kw)
            jobs.append(j)

    base = {"VF_CHECK_LINENO": 1}
    J("plain", pattern_groups(L, bol=True), base, options=["yylineno"])
    J("Cf", pattern_groups(L - 1, vartrail=False), base, options=["yylineno"], flex_args=["-Cf"])
    J("R", pattern_groups(L - 1, api="R"), base, options=["yylineno", "reentrant"], api="R")
    J("C99", pattern_groups(L - 1, api="C99"), base, options=["yylineno"], api="C99")
    # in-memory sources: each buffer made by yy_scan_string / yy_scan_bytes / yy_scan_buffer starts at line 1 (per buffer in reentrant scanners)
    for api in ("NR", "R", "C99"):
        for src in (1, 2, 3):
            J("scan%d-%s" % (src, api), pattern_groups(L - 1, api=api)[:80], base, options=["yylineno"] + (["reentrant"] if api == "R" else []), api=api,
              cdefs=["VF_SOURCE_SCAN=%d" % src], per=40)
    J("small-buffers", pattern_groups(L - 1, vartrail=False), dict(base, VF_BUFSIZES="1,2,3", VF_READ_ONE=1), options=["yylineno"])
    for api in ("NR", "R", "C99"):
        o = ["yylineno"] + (["reentrant"] if api == "R" else [])
        ops = [H.OP_LESS, H.OP_UNPUT, H.OP_INPUT1, H.OP_INPUT2, H.OP_MORE, H.OP_SETLINE, H.OP_RETURN]
        kn = dict(base, VF_OPMASK=H.opmask(*ops), VF_BUDGET_DEFAULT=1 if quick else 2, VF_BUDGET_TOTAL=1 if quick else 2,
                  VF_UNPUT_CHARS='"a\\n"', VF_OPS_PER_ACTION=2)
        J("ops-" + api, pattern_groups(L - 1, H.ops_action(ops, api), api), kn, api=api, options=o, per=40)
        # yymore() and then yyless(n) with n inside the text kept by yymore(): newlines of the earlier match are handed back
        ml = [H.OP_LESS, H.OP_MORE]
        J("more-less-" + api, pattern_groups(L - 1, H.ops_action(ml, api), api), dict(base, VF_OPMASK=H.opmask(*ml), VF_BUDGET_DEFAULT=2, VF_BUDGET_TOTAL=2),
          api=api, options=o, per=40, cdefs=["VF_LESS_BELOW_PREFIX"])
        kn2 = dict(base, VF_OPMASK=H.opmask(H.OP_REJECT), VF_FREE_OP=1, VF_BUDGET_OP=99)
        J("reject-" + api, pattern_groups(L - 1, H.ops_action([H.OP_REJECT], api), api)[:120], kn2, api=api, options=o, per=40)
    # yyless() called from a function in section 3 (the skeleton redefines it there, with its own line bookkeeping: round-8 seed C09-r8m2)
    for api in ("NR", "R", "C99"):
        for arr in (0, 1):
            l3 = [H.OP_LESS, H.OP_MORE]
            J("less3-%s-%d" % (api, arr), pattern_groups(L - 1, H.ops_action(l3, api, less3=True), api)[:120],
              dict(base, VF_OPMASK=H.opmask(*l3), VF_BUDGET_DEFAULT=2, VF_BUDGET_TOTAL=2), api=api,
              options=["yylineno"] + (["reentrant"] if api == "R" else []) + (["array"] if arr else []), cdefs=["VF_LESS3"] + (["VF_ARRAY"] if arr else []), per=40)
    J("array-ops", pattern_groups(L - 1, H.ops_action([H.OP_LESS, H.OP_UNPUT, H.OP_INPUT1, H.OP_MORE])),
      dict(base, VF_OPMASK=H.opmask(H.OP_LESS, H.OP_UNPUT, H.OP_INPUT1, H.OP_MORE), VF_BUDGET_DEFAULT=1, VF_BUDGET_TOTAL=1,
           VF_UNPUT_CHARS='"a\\n"'), options=["yylineno", "array"], cdefs=["VF_ARRAY"], per=40)
    for api in ("NR", "R", "C99"):
        io = [H.OP_INPUT1, H.OP_INPUT2, H.OP_SETLINE]
        gs = [g for g in pattern_groups(L - 1, H.ops_action(io, api), api, bol=True) if g.label.startswith("nl-bol")]
        o = ["reentrant"] if api == "R" else []
        J("bol-input-" + api, gs, dict(base, VF_OPMASK=H.opmask(*io), VF_BUDGET_DEFAULT=2, VF_BUDGET_TOTAL=2), api=api, options=o + ["yylineno"])
        J("bol-input-frozen-" + api, gs, {"VF_CHECK_LINENO": 1, "VF_LINENO_FROZEN": 1, "VF_OPMASK": H.opmask(*io), "VF_BUDGET_DEFAULT": 2,
                                          "VF_BUDGET_TOTAL": 2}, api=api, options=o)
    # without %option yylineno the line number is never modified (only the user sets it)
    for api in ("NR", "R", "C99"):
        ops = [H.OP_SETLINE, H.OP_LESS, H.OP_INPUT1, H.OP_UNPUT]
        kn = {"VF_CHECK_LINENO": 1, "VF_LINENO_FROZEN": 1, "VF_OPMASK": H.opmask(*ops), "VF_BUDGET_DEFAULT": 2, "VF_BUDGET_TOTAL": 2,
              "VF_UNPUT_CHARS": '"\\n"'}
        J("frozen-" + api, pattern_groups(L - 1, H.ops_action(ops, api), api)[:60], kn, api=api,
          options=(["reentrant"] if api == "R" else []), per=60)

    tot = dict(executions=0, tokens=0, choice_points=0, op_effects=0, nontrivial=0, inputs=0, horizons=0)
    ngroups = 0
    for job, res in pmap(H.run_groups_job, jobs, check=ck):
        if "worker_exception" in res:
            ck.broken.append("worker failed on %s: %s" % (job["tag"], res["worker_exception"]))
            continue
        if "build_failure" in res:
            bf = res["build_failure"]
            if H.harness_own_error(bf):
                ck.broken.append("harness does not compile (%s): %s" % (job["tag"], bf["stderr"][:400]))
            else:
                ck.violation("C09:%s-refused:%s" % (bf["stage"], job["tag"].split("-")[0]),
                             "%s failed: %s" % (bf["stage"], bf["stderr"][-300:]), files={"s.l": bf["spec"]}, case={"stderr": bf["stderr"]})
            continue
        sm = res["summary"]
        if sm is None:
            ck.violation("C09:driver-crash:" + job["tag"], "harness scanner died (rc=%s): %s" % (res["rc"], (res["hard_error"] or res["stderr"])[-300:]),
                         files={"s.l": res.get("spec", ""), "s_tables.h": res.get("tables", "")}, case={"stderr": res["stderr"]})
            continue
        for k in tot:
            tot[k] += sm.get(k, 0)
        ngroups += res["ngroups"]
        if sm.get("overflow") or sm.get("aborted"):
            ck.exhaustive = False
        for v in res["viols"]:
            if v.get("what") == "yylineno: newlines of rejected text stay counted":
                sig = "C09:yyreject:rejected-newlines-stay-counted"
            else:
                sig = "C09:%s:%s:%s" % (job["tag"].rsplit("-", 1)[0], v["label"], v.get("what", v.get("msg", v["viol"])))
            ck.violation(sig,
                         "%s [%s]: input %s choices %s: %s (line expected %s, observed %s)" % (
                             v["label"], job["tag"], v.get("input"), v.get("choices"), v.get("what", v.get("msg")),
                             v.get("exp_line"), v.get("obs_line")),
                         case={"cmd": v["cmd"], "viol": {k: v[k] for k in v if k not in ("spec", "tables", "cmd")}},
                         files={"s.l": v["spec"], "s_tables.h": v["tables"]})
        ck.sample({"job": job["tag"], "first": job["groups"][0].label, "executions": sm["executions"]})
    # per-buffer (reentrant, c99) and per-scanner (non-reentrant) counts under buffer histories (round-7 seed C09-r7m1): the buffer driver
    # with %option yylineno; the count is compared at every action, after every yyinput(), and as the user reads it back between calls.
    # No buffer operation consumes input, so none of them (flush, switch, push, pop, restart) may change the count of any buffer.
    # bound 3 in both tiers (the thorough tier adds read sizes); see the note in c08.py
    dev = 3
    full = 0x1fff & ~(1 << 12)
    bjobs = []
    for api in ("NR", "R", "C99"):
        for ro in ((1, 2) if tier == "quick" else (1, 2, None)):
            kn = {"VF_BUDGET_DEFAULT": dev, "VF_BUDGET_TOTAL": dev, "VF_CALLMASK": full, "VF_MAX_OPS": dev, "VF_ACTION_PUSH": 1, "VF_ACTION_INPUT": 1,
                  "VF_BUF_LINENO": 1}
            if ro:
                kn["VF_READ_ONE"] = ro
            bjobs.append(BH.make_job(api, [None], kn, "buflineno-%s-%s" % (api, ro), options=["yylineno", "noyyalloc", "noyyrealloc", "noyyfree"], cdefs=["VF_LEDGER"]))
    bt = BH.run_jobs(ck, "C09", bjobs)
    tot["executions"] += bt["executions"]; tot["tokens"] += bt["tokens"]; tot["choice_points"] += bt["choice_points"]; tot["nontrivial"] += bt["nontrivial"]
    ck.cov.update(per_buffer_counts=dict(executions=bt["executions"], tokens=bt["tokens"], yyinput_calls=bt["inputs"],
                                         buffer_calls=dict(zip(["yylex", "create+switch", "create+push", "pop", "switch", "flush", "delete", "scan_bytes",
                                                                "scan_string", "scan_buffer", "scan_buffer(bad)", "yyrestart"], bt["calls"]))))
    ck.guard(bt["executions"] > 100000 and bt["calls"][5] > 1000 and bt["calls"][4] > 1000, "buffer histories with yylineno hardly exercised")
    ck.cov.update(states=tot["choice_points"] + tot["inputs"], transitions=tot["tokens"] + tot["op_effects"],
                  traces_validated_against_impl=tot["executions"], evaluations=tot["executions"], distinct_nontrivial=tot["nontrivial"],
                  pattern_groups=ngroups, inputs=tot["inputs"],
                  rule="every newline-capable pattern form x every input over {a,\\n,b} up to length L (x operation histories within the "
                       "deviation bound); yylineno compared with the newline counter of the model at every action and after every operation")
    ck.assumptions += ["'^' rules together with yyless/yyunput are not generated", "the count of a buffer that is given a new file (yyrestart, new yyin) continues: nothing in the property resets it"]
    ck.guard(tot["executions"] > 50000, "too few executions: %d" % tot["executions"])
    return ck.finish()
