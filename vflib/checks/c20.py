"""C20 - user code is copied verbatim and located by accurate #line directives (DESIGN.md section 2, C20).

Two exhaustive families, every specification generated with exact knowledge of the line each probe sits on:

 payload family   every (user-code region, hostile payload, carrier) triple alone in a fixed layout.  The payload
                  travels inside a C string literal (read back from the running scanner), a block comment, a line
                  comment (looked up verbatim in the generated file) or a character literal.
 layout family    every subset of the layout features (blank lines, multi-line actions, '|' actions, %top,
                  definitions, start-condition scopes, multi-line (?x: ) patterns and (?# ) comments, %{ %} actions,
                  <<EOF>> rules, trailing context) with a __LINE__ probe in every region; every probe must report its
                  own line of the .l file; every '#line N "lex.yy.c"' must sit on line N-1 of the output; with
                  -L / %option noline no #line may remain.
"""
import itertools, os, re, shutil, subprocess
from .. import harness as H, build
from ..check import Check, pmap

REGIONS = ["top", "s1block", "s1indent", "s2block", "s2flush", "s2mid", "s2indent", "action1", "actionbrace", "actionblock", "actionor", "eofaction", "sect3"]
FILE_SCOPE = {"top", "s1block", "s1indent", "sect3"}

PAYLOADS = ["[[", "]]", "[[x]]", "]]x[[", "[[[[", "]]]]", "[", "]", "][", "[[]]", "m4_define([[x]],[[y]])", "m4_dnl", "dnl", "m4_include(/dev/null)",
            "m4_changequote", "m4_undefine([[yylex]])", "M4_YY_REENTRANT", "M4_MODE_PREFIX", "M4_HOOK_TRACE_LINE_FORMAT", "yyless(0)", "yyterminate()",
            "YY_G(x)", "yytext", "yymore()", "yyreject()", "REJECT", "ECHO", "BEGIN", "$1", "$@", "$#", "$*", "$0", "${x}", "`", "'", "`x'", "\"", "\\",
            "/*", "*/", "//", "%%", "%}", "%{", "{", "}", "}}", "{{", "}{", "#", "#line 7", "%top", "<<EOF>>", "@", "~", "]]m4_dnl", "[[m4_dnl",
            "m4_ifdef([[M4_YY_REENTRANT]],[[a]],[[b]])", "yy_flex_debug", "\\[\\[", "]]]", "[[[", "`[[", "]]'", "don't [[", "isn't ]]"]
CHARLITS = ["[", "]", "{", "}", "`", "\\'", "\"", "$", "#", "%", "\\\\", "@", "[[", "]]", "\\x5b", "\\135", "a[[", "a]]", "[[a", "]]a", "a[b", "[]"]
CARRIERS = ["string", "bcomment", "lcomment", "charlit"]


def cstr(s):
    return '"' + s.replace("\\", "\\\\").replace('"', '\\"') + '"'


class Spec:
    def __init__(self):
        self.lines = []
        self.probes = {}          # key -> expected line number (1-based)
        self.texts = []           # strings that must appear verbatim in the output

    def add(self, text=""):
        for l in text.split("\n"):
            self.lines.append(l)
        return len(self.lines)

    def probe_file(self, key, payload=None, carrier="string", indent=""):
        """file-scope probe: one line"""
        extra = self._carry(payload, carrier, key)
        n = self.add("%sstatic const int vf_l_%s = __LINE__; %s" % (indent, key, extra))
        self.probes[key] = n
        return n

    def _carry(self, payload, carrier, key):
        if payload is None:
            return ""
        if carrier == "string":
            return "static const char vf_s_%s[] = %s;" % (key, cstr(payload))
        if carrier == "charlit":
            return "static const int vf_c_%s = '%s';" % (key, payload)
        if carrier == "bcomment":
            t = "/* %s */ /*VFMARK_%s*/" % (payload, key)
            self.texts.append(t)
            return t
        if carrier == "lcomment":
            t = "// %s VFMARK_%s" % (payload, key)
            self.texts.append(t)
            return t
        raise ValueError(carrier)

    def stmt(self, key, payload=None, carrier="string"):
        """statement probe for code inside yylex; returns the text of one line"""
        if payload is None or carrier in ("bcomment", "lcomment"):
            extra = self._carry(payload, carrier, key) if payload is not None else ""
            return "vf_rec(%d, __LINE__, 0, 0); %s" % (KEYNUM[key], extra)
        if carrier == "string":
            return "vf_rec(%d, __LINE__, %s, 0);" % (KEYNUM[key], cstr(payload))
        return "vf_rec(%d, __LINE__, 0, '%s');" % (KEYNUM[key], payload)

    def text(self):
        return "\n".join(self.lines) + "\n"


KEYS = ["top", "s1block", "s1indent", "s2block", "s2indent", "action1", "actionbrace", "actionbrace3", "actionblock", "actionor", "eofaction", "sect3",
        "scoped", "afterx", "aftercomment", "trail", "contaction", "s1block2", "sect3b", "s2flush", "s2mid", "strcont", "longline", "ordollar1", "ordollar2"]
KEYNUM = {k: i for i, k in enumerate(KEYS)}

API_MAIN = {
    "nr": "yy_scan_string(vf_input); while (yylex() > 0) ;",
    "r": "{ yyscan_t s; yylex_init(&s); yy_scan_string(vf_input, s); while (yylex(s) > 0) ; yylex_destroy(s); }",
    "c99": "{ yyscan_t s; yylex_init(&s); yy_scan_string(vf_input, s); while (yylex(s) > 0) ; yylex_destroy(s); }",
}


def build_spec(api, feats, payload_at=None):
    """feats: set of layout features.  payload_at: (region, payload, carrier) or None."""
    S = Spec()
    pr, pp, pc = payload_at or (None, None, None)

    def pay(region):
        return (pp, pc) if region == pr else (None, "string")
    opts = ["noyywrap", "noinput", "nounput"]
    if api == "r":
        opts.append("reentrant")
    if api == "c99":
        opts.append('emit="c99"')
    if "noline_opt" in feats:
        opts.append("noline")
    if "blank" in feats:
        S.add("")
        S.add("/* leading comment")
        S.add("   over two lines */")
    S.add("%option " + " ".join(opts))
    if "top" in feats or pr == "top" or "bscomment" in feats:
        S.add("%top{")
        if "blank" in feats:
            S.add("")
        S.add("#include <stdio.h>")
        if "bscomment" in feats:
            # backslash-newline inside comments: a character like any other in a block comment, a line splice in a // comment
            # (round-6 seed C20-r6m2)
            S.add("/* a block comment whose line ends in a backslash \\")
            S.add("   and goes on */")
            S.add("// a line comment that is continued \\")
            S.add("   on the next line")
        S.probe_file("top", *pay("top"))
        S.add("}")
    S.add("%{")
    S.add("#include <stdio.h>")
    S.add("#include <string.h>")
    S.add("static int vf_line[32]; static const char *vf_str[32]; static int vf_chr[32]; static int vf_seen[32];")
    S.add("static void vf_rec(int k, int line, const char *s, int c) { if (!vf_seen[k]) { vf_seen[k] = 1; vf_line[k] = line; vf_str[k] = s; vf_chr[k] = c; } }")
    if "blank" in feats:
        S.add("")
    for f in sorted(feats):
        if f.startswith("exactline:"):
            # a user-code line of exactly N bytes in front of every generated-code directive: the filter that renumbers those
            # directives reads the output in fixed-size pieces (round-5 seed C20-r5m3)
            n = int(f.split(":")[1])
            head, tail = "static const char vf_pad[] = \"", "\";"
            S.add(head + "x" * (n - len(head) - len(tail)) + tail)
    if "bscomment" in feats:
        S.add("/* a block comment whose line ends in a backslash \\")
        S.add("   and goes on */")
        S.add("// a line comment that is continued \\")
        S.add("   on the next line")
    S.probe_file("s1block", *pay("s1block"))
    S.add("%}")
    if "defs" in feats:
        S.add("DIGIT   [0-9]")
        S.add("ID      [a-z][a-z0-9]*")
        S.add("%x XC")
        S.add("%s SC")
        if "blank" in feats:
            S.add("")
    else:
        S.add("%x XC")
    if "indent" in feats or pr == "s1indent":
        S.probe_file("s1indent", *pay("s1indent"), indent="    ")
    if "two_blocks" in feats:
        S.add("%{")
        S.probe_file("s1block2")
        S.add("%}")
    S.add("%%")
    if "s2block" in feats or pr in ("s2block", "s2flush"):
        S.add("%{")
        n = S.add("    " + S.stmt("s2block", *pay("s2block")))
        S.probes["s2block"] = n
        if "s2flush" in feats or pr == "s2flush":       # a line of the block that starts in column one
            n = S.add(S.stmt("s2flush", *pay("s2flush")))
            S.probes["s2flush"] = n
        S.add("%}")
    if "indent" in feats or pr == "s2indent":
        n = S.add("    " + S.stmt("s2indent", *pay("s2indent")))
        S.probes["s2indent"] = n
    if "blank" in feats:
        S.add("")
    # single-line action
    n = S.add("a    " + S.stmt("action1", *pay("action1")))
    S.probes["action1"] = n
    if "s2mid" in feats or pr == "s2mid":
        # a %{ %} block between two rules: its code lands inside yylex() after the preceding action, where it cannot run; the
        # probe is a declaration, checked through the verbatim / compile oracles and the line directives only
        S.add("%{")
        t = "enum { vf_mid_line = __LINE__ }; "
        if pr == "s2mid":
            t += S._carry(pay("s2mid")[0], pay("s2mid")[1], "s2mid")
            if pay("s2mid")[1] in ("string", "charlit"):
                S.texts.append(t)              # not reachable at run time: the whole line is looked up verbatim in the generated file
        S.add("    " + t)
        S.add("%}")
    if "blank" in feats:
        S.add("")
        S.add("")
    # braced multi-line action
    n = S.add("b    { " + S.stmt("actionbrace", *pay("actionbrace")))
    S.probes["actionbrace"] = n
    if "multiline" in feats:
        S.add("")
        S.add("         /* a comment line inside the action */")
        n = S.add("         " + S.stmt("actionbrace3"))
        S.probes["actionbrace3"] = n
    S.add("     }")
    if "pctaction" in feats or pr == "actionblock":
        S.add("c    %{")
        n = S.add("       " + S.stmt("actionblock", *pay("actionblock")))
        S.probes["actionblock"] = n
        S.add("     %}")
    if "oraction" in feats or pr == "actionor":
        S.add("d    |")
        if "blank" in feats:
            S.add("")
        S.add("e    |")
        n = S.add("f    " + S.stmt("actionor", *pay("actionor")))
        S.probes["actionor"] = n
    if "ordollar" in feats:
        # '$' rules next to '|' actions: the parser reduces 're$' before the scanner has seen what follows (round-5 seed C20-r5m1)
        S.add("u    |")
        n = S.add("v$   { " + S.stmt("ordollar1"))
        S.probes["ordollar1"] = n
        S.add("       (void)0; }")
        S.add("w$   |")
        n = S.add("x    " + S.stmt("ordollar2"))
        S.probes["ordollar2"] = n
    if "scope" in feats:
        S.add("r    yybegin(XC);")
        S.add("<XC>{")
        n = S.add("  g    { " + S.stmt("scoped") + " yybegin(INITIAL); }")
        S.probes["scoped"] = n
        S.add("}")
    if "xpattern" in feats:
        S.add("(?x: h")
        S.add("     i")
        S.add("     j )   ;")
        n = S.add("k    " + S.stmt("afterx"))
        S.probes["afterx"] = n
    if "pcomment" in feats:
        S.add("l(?# a comment")
        S.add("   spanning lines")
        S.add("   )m    ;")
        n = S.add("n    " + S.stmt("aftercomment"))
        S.probes["aftercomment"] = n
    if "trail" in feats:
        n = S.add("o/p    " + S.stmt("trail"))
        S.probes["trail"] = n
        S.add("p$     ;")
    if "strcont" in feats:
        S.add("s    { const char *vf_long = \"first half \\")
        S.add("second half\";")
        n = S.add("         " + S.stmt("strcont"))
        S.probes["strcont"] = n
        S.add("         (void)vf_long; }")
    if "longline" in feats:
        S.add("t    { static const char vf_big[] = \"" + "x" * 5000 + "\";")
        n = S.add("         " + S.stmt("longline"))
        S.probes["longline"] = n
        S.add("         (void)vf_big; }")
    if "contaction" in feats:
        S.add("q    {")
        S.add("        int vf_tmp = 0;")
        S.add("")
        S.add("        if (vf_tmp == 0) {")
        n = S.add("            " + S.stmt("contaction"))
        S.probes["contaction"] = n
        S.add("        }")
        S.add("     }")
    if "eof" in feats or pr == "eofaction":
        n = S.add("<<EOF>>  { " + S.stmt("eofaction", *pay("eofaction")))
        S.probes["eofaction"] = n
        S.add("           yyterminate(); }")
    if "scope" in feats:
        S.add("<XC><<EOF>>  yyterminate();")
    S.add(".|\\n    ;")
    if "blank" in feats:
        S.add("")
    S.add("%%")
    if "blank" in feats:
        S.add("")
        S.add("/* section three")
        S.add(" */")
    if "bscomment" in feats:
        S.add("/* a block comment whose line ends in a backslash \\")
        S.add("   and goes on */")
        S.add("// a line comment that is continued \\")
        S.add("   on the next line")
    S.probe_file("sect3", *pay("sect3"))
    if "sect3b" in feats:
        S.add("")
        S.add("/* a block comment")
        S.add("")
        S.add("   with an empty line */")
        S.add("#define VF_MULTI(a, b) \\")
        S.add("        ((a) + \\")
        S.add("         (b))")
        S.probe_file("sect3b")
    S.add("static const char vf_input[] = \"a b c d e f k n op p\\nq lm hij s t rg u x v\\n\";")
    S.add("static void vf_hex(const char *s) { if (!s) { printf(\"-\"); return; } printf(\"x\"); while (*s) printf(\"%02x\", (unsigned char)*s++); }")
    S.add("int main(void) {")
    S.add("    int k;")
    S.add("    " + API_MAIN[api])
    for key in S.probes:
        if key in ("top", "s1block", "s1indent", "sect3", "s1block2", "sect3b"):
            S.add("    printf(\"P %s %%d \", vf_l_%s);" % (key, key))
            if payload_at and pr == key and pc == "string":
                S.add("    vf_hex(vf_s_%s); printf(\" 0\\n\");" % key)
            elif payload_at and pr == key and pc == "charlit":
                S.add("    printf(\"- %%d\\n\", (int)vf_c_%s);" % key)
            else:
                S.add("    printf(\"- 0\\n\");")
    S.add("    for (k = 0; k < 32; k++) if (vf_seen[k]) { printf(\"Q %d %d \", k, vf_line[k]); vf_hex(vf_str[k]); printf(\" %d\\n\", vf_chr[k]); }")
    S.add("    return 0;")
    S.add("}")
    return S


def run_one(job):
    """job: dict(api, feats, payload_at, cli) -> dict(msgs=[(sig, what)], spec, ...)"""
    flex = build.get_flex()
    api, feats, payload_at, cli = job["api"], set(job["feats"]), job.get("payload_at"), job.get("cli", [])
    if payload_at is not None:
        payload_at = tuple(payload_at)
    S = build_spec(api, feats, payload_at)
    wd = H.mkscratch("c20")
    res = {"msgs": [], "spec": S.text(), "nprobes": 0}
    try:
        split = 0
        if "twofiles" in feats:
            # the specification continues in a second input file (flex p.l q.l): line numbers restart, directives name the second file
            split = S.probes["action1"]          # q.l starts with the line after the first rule
            open(os.path.join(wd, "p.l"), "w").write("\n".join(S.lines[:split]) + "\n")
            open(os.path.join(wd, "q.l"), "w").write("\n".join(S.lines[split:]) + "\n")
        else:
            open(os.path.join(wd, "p.l"), "w").write(S.text())
        p = subprocess.run([flex.exe] + list(cli) + ["-olex.yy.c", "p.l"] + (["q.l"] if split else []), cwd=wd, env=H.ENV, stdin=subprocess.DEVNULL, stdout=subprocess.PIPE, stderr=subprocess.PIPE, timeout=120)
        err = p.stderr.decode("latin-1")
        where = "%s/%s" % (payload_at[0], payload_at[2]) if payload_at else "layout"
        if p.returncode != 0 or not os.path.exists(os.path.join(wd, "lex.yy.c")):
            res["msgs"].append(("gen:" + where, "flex failed on a specification whose user code is valid C: rc=%s %s" % (p.returncode, err[-300:])))
            return res
        out = open(os.path.join(wd, "lex.yy.c"), errors="surrogateescape").read()
        olines = out.split("\n")
        noline = "-L" in cli or "--noline" in cli or "noline_opt" in feats
        # --- directive oracle
        ndir = 0
        for j, l in enumerate(olines):
            m = re.match(r'#line (\d+) "(.*)"', l)
            if not m:
                continue
            ndir += 1
            if noline:
                res["msgs"].append(("noline", "a #line directive remains although line directives are switched off: output line %d: %s" % (j + 1, l)))
                break
            n, f = int(m.group(1)), m.group(2)
            if f == "lex.yy.c":
                if n != j + 2:
                    res["msgs"].append(("outline", "'#line %d \"lex.yy.c\"' stands on output line %d (the line after it is line %d)" % (n, j + 1, j + 2)))
                    break
            elif f not in ("p.l", "q.l") or (f == "q.l" and not split):
                res["msgs"].append(("linefile", "#line names an unexpected file: %s" % l))
                break
            elif n < 1 or n > (len(S.lines) + 1 if not split else (split + 1 if f == "p.l" else len(S.lines) - split + 1)):
                res["msgs"].append(("linerange", "#line %d is outside the input file (%d lines)" % (n, len(S.lines))))
                break
        # --- attribution oracle: text that comes from the skeleton belongs to the output file, wherever user code stood before it
        # (reported by a round-6 sub-agent about the unmodified tree: nothing switched back after a %top block)
        if not noline:
            cur = None
            for j, l in enumerate(olines):
                m = re.match(r'#line (\d+) "(.*)"', l)
                if m:
                    cur = m.group(2)
                elif cur not in (None, "lex.yy.c") and re.match(r"#define (FLEX_SCANNER|YY_FLEX_MAJOR_VERSION|YY_BUF_SIZE|YY_NULL|EOB_ACT_CONTINUE_SCAN|YY_END_OF_BUFFER) ?", l):
                    res["msgs"].append(("attribution", "generated code on output line %d (%s) is attributed to %s by the preceding #line directive" % (j + 1, l.strip()[:40], cur)))
                    break
        if "--header-file=H.h" in cli:
            hp = os.path.join(wd, "H.h")
            if not os.path.exists(hp):
                res["msgs"].append(("header", "header file not written"))
            else:
                for j, l in enumerate(open(hp, errors="surrogateescape").read().split("\n")):
                    m = re.match(r'#line (\d+) "(.*)"', l)
                    if not m:
                        continue
                    ndir += 1
                    if noline:
                        res["msgs"].append(("noline", "a #line directive remains in the header although line directives are switched off: %s" % l))
                        break
                    n, f = int(m.group(1)), m.group(2)
                    if f == "H.h" and n != j + 2:
                        res["msgs"].append(("outline-header", "'#line %d \"H.h\"' stands on line %d of the header" % (n, j + 1)))
                        break
                    if f == "lex.yy.c":
                        res["msgs"].append(("outline-header", "a #line directive in the header names the scanner file: line %d: %s" % (j + 1, l)))
                        break
        res["ndir"] = ndir
        # --- verbatim text oracle (comments)
        for t in S.texts:
            if t not in out:
                res["msgs"].append(("verbatim:" + where, "user text %r does not appear verbatim in the generated scanner" % t))
        # --- compile and run
        c = subprocess.run(["gcc", "-w", "-g", "-I" + flex.incdir, "-o", "p.exe", "lex.yy.c"], cwd=wd, env=H.ENV, stdout=subprocess.PIPE, stderr=subprocess.PIPE, timeout=120)
        if c.returncode != 0:
            res["msgs"].append(("compile:" + where, "the generated scanner does not compile although every user-code region is valid C: " + c.stderr.decode("latin-1")[:400]))
            return res
        # generated code must be attributed to the output file at its true line: the debug information of three generated functions
        if not payload_at:
            nm = subprocess.run(["nm", "-l", "p.exe"], cwd=wd, stdout=subprocess.PIPE, stderr=subprocess.PIPE).stdout.decode("latin-1")
            for fn in ("yylex", "yy_create_buffer", "yylex_destroy"):
                m = re.search(r"^\S+ [Tt] %s\t(\S+):(\d+)$" % fn, nm, re.M)
                if not m:
                    continue
                res["ndir"] = res.get("ndir", 0) + 1
                fpath, fline = os.path.basename(m.group(1)), int(m.group(2))
                real = [j + 1 for j, l in enumerate(olines) if re.match(r"^(int|yybuffer|YY_BUFFER_STATE|YY_DECL)\b.*\b%s\b" % fn, l) or (fn == "yylex" and l.startswith("YY_DECL")) ]
                if noline:
                    continue
                if fpath != "lex.yy.c":
                    res["msgs"].append(("generated-attribution", "the generated function %s() is attributed to %s:%d by the line directives (it is generated code of lex.yy.c)" % (fn, fpath, fline)))
                elif real and min(abs(fline - x) for x in real) > 3:
                    res["msgs"].append(("generated-attribution", "the generated function %s() is attributed to lex.yy.c:%d, its definition is at line %s" % (fn, fline, real[:3])))
        r = subprocess.run(["./p.exe"], cwd=wd, env=H.ENV, stdin=subprocess.DEVNULL, stdout=subprocess.PIPE, stderr=subprocess.PIPE, timeout=30)
        if r.returncode != 0:
            res["msgs"].append(("run:" + where, "probe scanner exited with %s: %s" % (r.returncode, r.stderr.decode("latin-1")[-200:])))
            return res
        got = {}
        for l in r.stdout.decode("latin-1").splitlines():
            f = l.split()
            if f[0] == "P":
                got[f[1]] = (int(f[2]), f[3], int(f[4]))
            elif f[0] == "Q":
                got[KEYS[int(f[1])]] = (int(f[2]), f[3], int(f[4]))
        for key, expect in S.probes.items():
            res["nprobes"] += 1
            if key not in got:
                res["msgs"].append(("unreached:" + key, "the code of region %s never ran (expected at line %d)" % (key, expect)))
                continue
            line, hx, ch = got[key]
            if split and expect > split:
                expect -= split                 # the probe sits in the second file
            if not noline and line != expect:
                res["msgs"].append(("line:" + key, "__LINE__ in region %s reports %d, the code is on line %d of the input" % (key, line, expect)))
            if payload_at and payload_at[0] == key:
                pl, car = payload_at[1], payload_at[2]
                if car == "string":
                    exp = "x" + pl.encode("latin-1").hex()
                    if hx != exp:
                        res["msgs"].append(("string:" + where, "string literal %r in region %s reached the compiler as %r" % (pl, key, bytes.fromhex(hx[1:]) if hx.startswith("x") else hx)))
                elif car == "charlit":
                    ev = {"\\'": 39, "\\\\": 92, "\\x5b": 0x5b, "\\135": 0x5d}.get(pl)
                    if ev is None:      # gcc's value of a (multi-)character constant
                        ev = 0
                        for chh in pl:
                            ev = ev * 256 + ord(chh)
                    if ch != ev:
                        res["msgs"].append(("charlit:" + where, "character literal '%s' in region %s has value %d" % (pl, key, ch)))
        return res
    except subprocess.TimeoutExpired:
        res["msgs"].append(("timeout", "flex or the probe did not terminate"))
        return res
    finally:
        shutil.rmtree(wd, ignore_errors=True)


LAYOUT_FEATS = ["blank", "top", "defs", "indent", "s2block", "multiline", "pctaction", "oraction", "scope", "xpattern", "pcomment", "trail", "contaction", "eof",
                "two_blocks", "sect3b", "twofiles", "s2flush", "s2mid", "strcont", "longline", "ordollar", "bscomment"]
BASE_FEATS = ["top", "defs", "eof"]


def run(tier):
    ck = Check("C20", tier, "exploration")
    ck.flex()
    quick = tier == "quick"
    jobs = []
    # payload family: bound 1 = one payload in one region
    apis_payload = ["nr"] if quick else ["nr", "r", "c99"]
    for api in apis_payload:
        for region in REGIONS:
            for carrier in CARRIERS:
                pls = CHARLITS if carrier == "charlit" else PAYLOADS
                for pl in pls:
                    if carrier == "bcomment" and "*/" in pl:
                        continue
                    if carrier == "bcomment" and pl.endswith("\\"):
                        pass
                    if carrier == "lcomment" and pl.endswith("\\"):
                        continue        # a trailing backslash would splice the next line into the comment
                    if region in ("actionblock", "s2block", "s2flush", "s2mid") and "%}" in pl:
                        continue        # the manual: a %{ action or block extends to the next %} - the text cannot contain one
                    jobs.append(dict(api=api, feats=BASE_FEATS, payload_at=(region, pl, carrier)))
    npay = len(jobs)
    # layout family: every subset of the layout features up to size 2 (quick) / all pairs and the full set, x option sets
    subsets = [()] + [(f,) for f in LAYOUT_FEATS] + list(itertools.combinations(LAYOUT_FEATS, 2)) + [tuple(LAYOUT_FEATS)]
    if not quick:
        subsets += list(itertools.combinations(LAYOUT_FEATS, 3))
    for api in ["nr", "r", "c99"]:
        for sub in subsets:
            if api != "nr" and quick and len(sub) == 2:
                continue
            for cli in ([], ["-L"], ["--header-file=H.h"], ["--header-file=H.h", "-L"]):
                if cli and (len(sub) > 1 and len(sub) != len(LAYOUT_FEATS)) and quick:
                    continue
                if cli and api == "c99" and "--header-file=H.h" in cli:
                    continue       # the c99 back end does not generate headers (manual)
                jobs.append(dict(api=api, feats=list(sub), cli=cli))
            if len(sub) <= 1 or len(sub) == len(LAYOUT_FEATS):
                jobs.append(dict(api=api, feats=list(sub) + ["noline_opt"]))
    # user-code lines whose length sits at the piece size of the directive-renumbering filter (4096-byte reads) and its multiples
    for n in list(range(4088, 4102)) + list(range(8183, 8196)) + ([] if quick else list(range(2040, 2052)) + list(range(12278, 12290))):
        jobs.append(dict(api="nr", feats=["exactline:%d" % n]))
    nlay = len(jobs) - npay
    nprobes = ndirs = 0
    distinct = set()      # distinct (region, payload, carrier) triples and layout subsets that ran clean (measured)
    for j, res in pmap(run_one, jobs, check=ck):
        if "worker_exception" in res:
            ck.broken.append("worker failed on %s: %s" % (j, res["worker_exception"]))
            continue
        nprobes += res.get("nprobes", 0)
        ndirs += res.get("ndir", 0)
        for sig, what in res["msgs"]:
            pa = j.get("payload_at")
            if pa:
                pl = pa[1]
                cls = "brace" if ("{" in pl or "}" in pl) else "commentopen" if "/*" in pl else "other"
                full = "C20:%s:%s:%s:%s:%s:%s" % (pa[0], cls, sig.split(":")[0], pa[2], j["api"], pl)
                what = "[%s, payload %r as %s in region %s] %s" % (j["api"], pa[1], pa[2], pa[0], what)
            else:
                full = "C20:%s:%s" % (sig, j["api"])
                what = "[%s, layout %s %s] %s" % (j["api"], "+".join(j["feats"]) or "(plain)", " ".join(j.get("cli", [])), what)
            ck.violation(full, what, files={"p.l": res["spec"]}, case={"job": j}, replay={"module": "vflib.checks.c20", "func": "run_one", "args": j, "tuple": False})
        if not res["msgs"]:
            pa_ = j.get("payload_at")
            distinct.add(("P",) + tuple(pa_) if pa_ else ("L", tuple(sorted(j["feats"]))))
            ck.sample({"api": j["api"], "payload_at": j.get("payload_at"), "feats": j["feats"], "probes": res.get("nprobes")}, limit=10)
    ck.cov.update(evaluations=len(jobs), distinct_nontrivial=len(distinct), payload_specs=npay, layout_specs=nlay,
                  line_probes_checked=nprobes, line_directives_checked=ndirs, regions=len(REGIONS), payloads=len(PAYLOADS), layout_features=len(LAYOUT_FEATS),
                  rule="payload family: every (region, payload, carrier) triple alone: the string / character literal is read back from the running scanner "
                       "and compared byte for byte, comments are looked up verbatim in the generated file, and the scanner must compile; layout family: "
                       "every listed subset of layout features with a __LINE__ probe in every region: each probe reports its own input line, each "
                       "'#line N \"lex.yy.c\"' stands on output line N-1, and -L / %option noline leave no #line; distinct_nontrivial = distinct "
                       "(region, payload, carrier) triples and distinct layout subsets whose run was clean, counted on this run")
    ck.assumptions += ["user code is valid C in its place (balanced braces outside literals and comments, as the manual requires)"]
    ck.guard(nprobes > 1000, "too few line probes evaluated: %d" % nprobes)
    return ck.finish()
