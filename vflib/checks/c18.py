"""C18 - scanner generation is deterministic and reproducible (DESIGN.md section 2, C18)."""
import glob, hashlib, itertools, os, re, shutil, subprocess
from .. import regex as R, harness as H, build, specgen
from ..check import Check, pmap, VERIF
from . import c01, c02

SHIM = None


def build_shim():
    out = os.path.join(build.CACHE, "shim_heap.so")
    src = os.path.join(VERIF, "csrc", "shim_heap.c")
    if not os.path.exists(out) or os.path.getmtime(out) < os.path.getmtime(src):
        os.makedirs(build.CACHE, exist_ok=True)
        tmp = out + ".%d" % os.getpid()
        subprocess.check_call(["gcc", "-O1", "-shared", "-fPIC", "-o", tmp, src])
        os.replace(tmp, out)
    return out


# (name, environment changes, LD_PRELOAD shim?, cwd depth, argv0 form)
def perturbations(shim):
    P = [("perturb55", {"MALLOC_PERTURB_": "85"}), ("perturbAA", {"MALLOC_PERTURB_": "170"}), ("perturbFF", {"MALLOC_PERTURB_": "255"})]
    for off, fill in ((0, 0x5a), (16, 0xff), (32, 0x01), (4096, 0xa5)):
        P.append(("shim%d" % off, {"LD_PRELOAD": shim, "VF_HEAP_OFFSET": str(off), "VF_HEAP_FILL": str(fill)}))
    P.append(("bigenv", dict(("VF_PAD_%d" % i, "x" * 200) for i in range(40))))
    P.append(("tmpdir", {"TMPDIR": "/var/tmp", "HOME": "/nonexistent", "TZ": "Pacific/Kiritimati", "LANG": "C"}))
    return P


OPTSETS = [("default", []), ("Cf", ["-Cf"]), ("CF", ["-CF"]), ("CFe", ["-CFe"]), ("Cem-b", ["-Cem", "-b"]), ("tables", ["--tables-file=o.tables"]),
           ("header", ["--header-file=o.h"]), ("c99", ["--emit=c99"]), ("cxx", ["-+"]), ("reentrant-bison", ["--reentrant", "--bison-bridge"]),
           ("Ca", ["-Ca"]), ("Cm", ["-Cm"]),
           # the serialized accepting lists exist only for REJECT / variable trailing context (round-7 seed C18-r7m3)
           ("tables-reject", ["--tables-file=o.tables", "--reject"])]


def generated_specs():
    """Specifications made by the harness generators (no harness code needed: only flex's output is compared)."""
    specs = {}
    # packed pattern specs (hundreds of start conditions, classes, counted repeats)
    gs = c01.ast_groups(2, 3)
    for i, ch in enumerate(list(specgen.chunks(gs, 150))[:3]):
        specs["gen-ast-%d" % i] = strip(H.emit_spec(H.Pack(ch)))
    for i, g in enumerate(c01.big_groups()):
        specs["gen-big-%d" % i] = strip(H.emit_spec(H.Pack([g])))
    for i, g in enumerate(c02.packer_groups(6, 11)):
        specs["gen-clike-%d" % i] = strip(H.emit_spec(H.Pack([g])))
    # 1600 keywords: pushes nxt/chk and the DFA arrays through several reallocations
    kws = ["".join(w) for w in itertools.product("abcdefg", repeat=4)][:1600]
    # user code with m4 quote sequences in every region (the escapes are written through different paths per region)
    specs["gen-usercode"] = """%top{
#include <stdio.h>
static int vf_t[2]; /* [[ ]] */
#define VF_TT(i) vf_t[vf_t[i]]
}
%option noyywrap
%{
static int vf_u[2]; /* ]] [[ */
#define VF_UU(i) vf_u[vf_u[i]]
%}
    static const char *vf_ind = "[[indented]]";
%%
%{
    int vf_loc[2] = {0, 0}; (void)vf_loc[vf_loc[0]];
%}
a   { return VF_TT(0) + VF_UU(0) + vf_loc[vf_loc[1]]; }
b   |
c   { const char *s = "]][["; return s[0] == ']'; }
<<EOF>> { return 0; /* [[eof]] */ }
.|\\n { }
%%
int vf_sect3[2]; int vf_f(void) { return vf_sect3[vf_sect3[0]]; }
"""
    specs["gen-keywords"] = "%option noyywrap\n%%\n" + "".join("%s { return %d; }\n" % (k, i + 1) for i, k in enumerate(kws)) + "[a-z]+ { return 0; }\n.|\\n { }\n%%\n"
    return specs


def strip(spec):
    spec = spec.split("%%\n#include")[0] + "%%\n"
    spec = re.sub(r'%option pre-action=.*\n', '', spec)
    spec = re.sub(r'%option user-init=.*\n', '', spec)
    return spec.replace('#include "vf_pre.h"\n', '').replace("{ vf_body(); }", "{ }")


def repo_specs():
    out = {}
    try:
        names = subprocess.run(["git", "-C", build.REPO, "ls-files", "tests/*.l", "src/scan.l", "examples/*.l", "examples/fastwc/*.l"],
                               stdout=subprocess.PIPE, stderr=subprocess.DEVNULL).stdout.decode().split()
    except OSError:
        names = []
    for n in names:
        p = os.path.join(build.REPO, n)
        if os.path.exists(p):
            out["repo-" + n.replace("/", "_")] = open(p, errors="surrogateescape").read()
    return out


LINE_RE = re.compile(rb'^#line (\d+) ".*"$', re.M)


def normalise(b):
    return LINE_RE.sub(rb'#line \1 "F"', b)


def run_flex(flex_exe, wd, args, env, stdout_to=None):
    e = dict(H.ENV)
    e.update(env)
    so = open(os.path.join(wd, stdout_to), "wb") if stdout_to else subprocess.PIPE
    try:
        p = subprocess.run([flex_exe] + args, cwd=wd, env=e, stdin=subprocess.DEVNULL, stdout=so, stderr=subprocess.PIPE, timeout=300)
    finally:
        if stdout_to:
            so.close()
    return p.returncode, p.stderr.decode("latin-1")


def outputs(wd):
    res = {}
    for f in sorted(os.listdir(wd)):
        if f.startswith("o.") or f in ("lex.backup", "lex.yy.c", "lex.yy.cc"):
            res[f] = open(os.path.join(wd, f), "rb").read()
    return res


def job(args):
    name, spec, optname, opts, quick = args
    flex = build.get_flex()
    shim = build_shim()
    base = H.mkscratch("c18")
    res = {"name": name, "opt": optname, "diffs": [], "runs": 0, "skipped": None}
    try:
        def one(tag, env, mode="o", sub=""):
            wd = os.path.join(base, tag + sub)
            os.makedirs(wd)
            open(os.path.join(wd, "in.l"), "w", errors="surrogateescape").write(spec)
            if mode == "o":
                rc, err = run_flex(flex.exe, wd, list(opts) + ["-o", "o.c", "in.l"], env)
            elif mode == "to":
                # scanner to stdout, named by -o: the shell writes the same o.c that flex would have
                rc, err = run_flex(flex.exe, wd, list(opts) + ["-t", "-o", "o.c", "in.l"], env, stdout_to="o.c")
            else:
                rc, err = run_flex(flex.exe, wd, list(opts) + ["-t", "in.l"], env, stdout_to="o.c")
            res["runs"] += 1
            return rc, err, outputs(wd)
        rc0, err0, out0 = one("base", {})
        if rc0 != 0:
            res["skipped"] = "flex refuses this file with these options: " + err0.strip().splitlines()[-1][:120] if err0.strip() else "rc=%d" % rc0
            # a refusal must be reproducible too
            rc1, err1, _ = one("base2", {"MALLOC_PERTURB_": "170"})
            if (rc1, err1) != (rc0, err0):
                res["diffs"].append(("refusal", "exit status / diagnostics differ between two runs: %r vs %r" % ((rc0, err0[-100:]), (rc1, err1[-100:]))))
            return res
        perts = perturbations(shim)
        if quick:
            h = int(hashlib.md5((name + optname).encode()).hexdigest(), 16)
            pick = []
            for k in (1, 3 + h % 4, (h // 7) % len(perts)):
                if perts[k] not in pick:
                    pick.append(perts[k])
            perts = pick
        for pname, env in perts:
            rc, err, out = one(pname, env)
            if rc != rc0:
                res["diffs"].append((pname, "exit status %d instead of %d: %s" % (rc, rc0, err[-200:])))
                continue
            for f in sorted(set(out0) | set(out)):
                if out0.get(f) != out.get(f):
                    a, b = out0.get(f, b""), out.get(f, b"")
                    i = next((k for k in range(min(len(a), len(b))) if a[k] != b[k]), min(len(a), len(b)))
                    res["diffs"].append((pname, "%s differs at byte %d of %d (line %d): %r vs %r" % (f, i, len(a), a.count(b"\n", 0, i) + 1,
                                                                                                a[i:i + 24], b[i:i + 24])))
        # a deeper working directory and another argv[0]
        rc, err, out = one("cwd", {}, sub="/a/b/c")
        for f in out0:
            if out0[f] != out.get(f):
                res["diffs"].append(("cwd", "%s differs when flex runs in another directory" % f))
        # stdout instead of a named file: identical apart from the file names inside #line directives
        rc, err, out = one("stdout", {}, mode="t")
        if rc == rc0 and "o.c" in out and "o.c" in out0:
            if normalise(out["o.c"]) != normalise(out0["o.c"]):
                a, b = normalise(out0["o.c"]), normalise(out["o.c"])
                i = next((k for k in range(min(len(a), len(b))) if a[k] != b[k]), min(len(a), len(b)))
                res["diffs"].append(("stdout", "-t output differs from -o output beyond #line file names, at line %d: %r vs %r" % (
                    a.count(b"\n", 0, i) + 1, a[i:i + 40], b[i:i + 40])))
            for f in out0:
                if f != "o.c" and out0[f] != out.get(f):
                    res["diffs"].append(("stdout", "%s differs between -o and -t runs" % f))
        # ... and with -t -o FILE the manual promises directives that refer to FILE: then nothing at all may differ (round-5 seed C18-r5m3)
        rc, err, out = one("stdout-named", {}, mode="to")
        if rc != rc0:
            res["diffs"].append(("stdout-named", "exit status %d with -t -o o.c instead of %d: %s" % (rc, rc0, err[-200:])))
        elif "o.c" in out0 and out.get("o.c") != out0["o.c"]:
            a, b = out0["o.c"], out.get("o.c", b"")
            i = next((k for k in range(min(len(a), len(b))) if a[k] != b[k]), min(len(a), len(b)))
            res["diffs"].append(("stdout-named", "the scanner written by 'flex -t -o o.c > o.c' differs from the one written by 'flex -o o.c', at line %d: %r vs %r" % (
                a.count(b"\n", 0, i) + 1, a[i:i + 40], b[i:i + 40])))
        res["files"] = sorted(out0)
        return res
    finally:
        shutil.rmtree(base, ignore_errors=True)


def valgrind_job(args):
    name, spec, opts = args
    flex = build.get_flex()
    wd = H.mkscratch("c18vg")
    try:
        open(os.path.join(wd, "in.l"), "w", errors="surrogateescape").write(spec)
        p = subprocess.run(["valgrind", "-q", "--error-exitcode=99", "--trace-children=no", flex.exe] + list(opts) + ["-o", "o.c", "in.l"], cwd=wd,
                           env=H.ENV, stdin=subprocess.DEVNULL, stdout=subprocess.PIPE, stderr=subprocess.PIPE, timeout=900)
        return {"rc": p.returncode, "stderr": p.stderr.decode("latin-1")[-1500:], "name": name, "opts": opts}
    except subprocess.TimeoutExpired:
        return {"rc": -1, "stderr": "timeout", "name": name, "opts": opts}
    finally:
        shutil.rmtree(wd, ignore_errors=True)


def run(tier):
    ck = Check("C18", tier, "exploration")
    flex = ck.flex()
    quick = tier == "quick"
    if not flex.bootstrap_same:
        ck.violation("C18:bootstrap", "regenerating flex's own scanner with a flex built from that scanner does not reproduce it (stage1scan.c != stage2scan.c)",
                     copy_from=[os.path.join(flex.dir, "stage1scan.c"), os.path.join(flex.dir, "stage2scan.c")])
    specs = {}
    specs.update(repo_specs())
    specs.update(generated_specs())
    names = sorted(specs)
    jobs = []
    for si, n in enumerate(names):
        for oi, (on, opts) in enumerate(OPTSETS):
            if quick and (si + oi) % 3 and not n.startswith("gen-keywords") and not (n.startswith("gen-big") and on in ("CF", "CFe", "tables")):
                continue
            jobs.append((n, specs[n], on, opts, quick))
    runs = compared = skipped = 0
    for j, res in pmap(job, jobs, check=ck):
        if "worker_exception" in res:
            ck.broken.append("worker failed on %s/%s: %s" % (j[0], j[2], res["worker_exception"]))
            continue
        runs += res["runs"]
        if res["skipped"]:
            skipped += 1
        else:
            compared += 1
        for pname, what in res["diffs"]:
            ck.violation("C18:%s:%s:%s" % (pname.rstrip("0123456789AF"), res["opt"], res["name"]),
                         "%s with %s under %s: %s" % (res["name"], res["opt"], pname, what), files={"in.l": j[1].encode("utf-8", "surrogateescape")},
                         case={"options": j[3], "perturbation": pname})
        if len(ck.samples) < 10 and not res["skipped"]:
            ck.sample({"spec": res["name"], "options": res["opt"], "runs": res["runs"], "files_compared": res.get("files")})
    # uninitialised bytes reaching the output: valgrind memcheck checks the buffers passed to write()
    vg = [("gen-keywords", specs["gen-keywords"], ["-CF"]), ("gen-big-0", specs["gen-big-0"], ["--tables-file=o.tables", "-CFe"]),
          ("repo-src_scan.l", specs.get("repo-src_scan.l", specs["gen-big-1"]), ["-Cf"])]
    if not quick:
        vg += [(n, specs[n], o) for n in names[:6] for o in (["-CF"], ["-Cem"])]
    nvg = 0
    for j, r in pmap(valgrind_job, vg, check=ck):
        if "worker_exception" in r:
            ck.notes.append("valgrind job failed: %s" % r["worker_exception"])
            continue
        nvg += 1
        if r["rc"] == 99 or "uninitialised" in r["stderr"]:
            ck.violation("C18:memcheck:%s:%s" % (j[0], " ".join(j[2])), "valgrind memcheck: flex uses or writes uninitialised memory on %s %s: %s" % (
                j[0], " ".join(j[2]), r["stderr"][:500]), case=r)
    ck.cov.update(evaluations=runs, distinct_nontrivial=compared, specs=len(names), spec_option_pairs=len(jobs), refused_pairs=skipped, valgrind_runs=nvg,
                  bootstrap_identical=bool(flex.bootstrap_same),
                  rule="every (specification, option set) pair of the corpus (tracked .l files of the repository + generated pattern / keyword / "
                       "C-like specifications x 12 option sets) is generated once plainly and once under each perturbation (MALLOC_PERTURB_ x3, "
                       "LD_PRELOAD heap shim with 4 offsets/fill bytes, 8 KB of extra environment, other TMPDIR/HOME/TZ, deeper working "
                       "directory, -t instead of -o): scanner, header, tables and backup files must be byte-identical (only the file names in "
                       "#line directives may differ for -t); distinct_nontrivial = pairs flex accepted and whose outputs were compared")
    ck.assumptions += ["the quick tier applies 3 of the 9 environment perturbations per pair (chosen by a hash of the pair) plus the directory and "
                       "-t comparisons; the thorough tier applies all", "m4 inherits the perturbed environment as well"]
    ck.guard(compared > 100, "too few pairs compared: %d" % compared)
    return ck.finish()
