"""C13 - generated scanners are memory-safe and release everything they allocate
(DESIGN.md section 2, C13).  The executions of the other harnesses are repeated under
AddressSanitizer + UndefinedBehaviorSanitizer with an allocation ledger (exact-size blocks,
realloc always moves, live-set accounting); a subset also runs under valgrind memcheck."""
import copy, os, shutil, subprocess
from .. import regex as R, harness as H, bufharness as BH, specgen
from ..check import Check, pmap
from . import c03, c08, c04, c07

LEDGER_OPTS = ["noyyalloc", "noyyrealloc", "noyyfree"]


def with_san(job, ledger=True):
    j = dict(job)
    j["san"] = True
    if ledger and j.get("api", "NR") != "CXX":
        j["options"] = list(j.get("options", ())) + LEDGER_OPTS
        j["cdefs"] = list(j.get("cdefs", ())) + ["VF_LEDGER"]
    j["tag"] = "san:" + str(j.get("tag"))
    return j


def jobs_for(tier):
    quick = tier == "quick"
    jobs = []
    # C08 operation histories (all APIs, %array/%pointer, tiny buffers): every second scenario in the quick tier
    j8 = c08.jobs_for("quick")
    for i, j in enumerate(j8):
        if quick and i % 2:
            continue
        j = copy.copy(j)
        j["knobs"] = dict(j["knobs"], VF_BUDGET_DEFAULT=1 if quick else 2, VF_BUDGET_TOTAL=1 if quick else 2)
        jobs.append(with_san(j))
    # C03 read schedules and sources (refills, growth, scan_* buffers)
    for i, j in enumerate(c03.jobs_for("quick")):
        if quick and i % 3:
            continue
        jobs.append(with_san(copy.copy(j)))
    # NUL / 8-bit patterns in every table representation
    for tb in c04.TABLES:
        for api in ("NR", "R", "C99"):
            if quick and api != "NR" and tb not in ("-Cem", "-Cf", "-CFe"):
                continue
            gs = c04.pattern_groups(1, 3)
            jobs.append(with_san(dict(groups=gs[: 60 if quick else len(gs)], knobs={"VF_READ_ONE": 1, "VF_BUFSIZES": "0,1,2"}, api=api,
                                      flex_args=[tb, "-8"], options=(["reentrant"] if api == "R" else []), tag="nul%s-%s" % (tb, api),
                                      driver_args=["-H", "200"])))
    # REJECT (state buffer) and the start-condition stack
    rej = H.ops_action([H.OP_REJECT])
    jobs.append(with_san(dict(groups=c07.groups(3, True, rej, nul=True)[:60], tag="reject",
                              knobs={"VF_OPMASK": H.opmask(H.OP_REJECT), "VF_FREE_OP": 1, "VF_BUDGET_OP": 99}, driver_args=["-H", "300"])))
    from . import c05
    for api in ("NR", "R", "C99"):
        ops, gs = c05.stack_groups(api)
        o = ["stack"] + (["reentrant"] if api == "R" else [])
        base = {"VF_OPMASK": H.opmask(*ops), "VF_BUDGET_DEFAULT": 3, "VF_BUDGET_TOTAL": 3, "sc_args": ["INITIAL", "A", "B"]}
        jobs.append(with_san(dict(groups=gs, tag="stack-" + api, api=api, options=o, knobs=dict(base), driver_args=["-H", "100"])))
        jobs.append(with_san(dict(groups=gs, tag="stack-preload-" + api, api=api, options=o,
                                  knobs=dict(base, VF_BUDGET_DEFAULT=1, VF_BUDGET_TOTAL=1, VF_BEGIN_OUTSIDE=1, VF_PRELOADS="0,24,25,26,51,101"),
                                  driver_args=["-H", "400"])))
    # buffer histories (create/switch/push/pop/flush/delete/scan_*/restart, EOF handling), deep nesting
    dev = 2 if quick else 3
    full = 0x1fff
    for api in ("NR", "R", "C99"):
        for ro in (None, 1):
            kn = {"VF_BUDGET_DEFAULT": dev, "VF_BUDGET_TOTAL": dev, "VF_CALLMASK": full, "VF_MAX_OPS": dev, "VF_ACTION_PUSH": 1}
            if ro:
                kn["VF_READ_ONE"] = ro
            jobs.append(BH.make_job(api, [["A"], None], kn, "san:buf-%s-%s" % (api, ro), options=LEDGER_OPTS, cdefs=["VF_LEDGER"], san=True))
        deep_src = [b"ab\nba" if i % 2 else b"b\naab" for i in range(40)]
        for depth in (9, 37):
            kn = {"VF_BUDGET_DEFAULT": 0, "VF_BUDGET_TOTAL": 0, "VF_CALLMASK": (1 << 2) | (1 << 3), "VF_MAX_OPS": 200, "VF_DEEP": depth}
            jobs.append(BH.make_job(api, [], kn, "san:deep%d-%s" % (depth, api), sources=deep_src, options=LEDGER_OPTS, cdefs=["VF_LEDGER"], san=True))
    jobs.append(BH.make_job("NR", [None], {"VF_BUDGET_DEFAULT": dev, "VF_BUDGET_TOTAL": dev, "VF_CALLMASK": full, "VF_MAX_OPS": dev,
                                           "VF_READ_ONE": 3, "VF_EXPECT_FATAL": '"scanner uses yyreject"'}, "san:buf-reject",
                            options=["reject"] + LEDGER_OPTS, cdefs=["VF_LEDGER"], san=True))
    # REJECT scanners keep one state per scanned character in a buffer sized after the input buffer: a small first buffer (a short
    # yy_scan_string), then a default-size one made by yyrestart() when no buffer is current, then a token longer than the first buffer
    rmask = (1 << 1) | (1 << 3) | (1 << 6) | (1 << 7) | (1 << 8) | (1 << 9) | (1 << 11)
    for api in ("NR", "R", "C99"):
        jobs.append(BH.make_job(api, [None], {"VF_BUDGET_DEFAULT": 3, "VF_BUDGET_TOTAL": 3, "VF_CALLMASK": rmask, "VF_MAX_OPS": 3,
                                              "VF_EXPECT_FATAL": '"enlarge buffer because scanner uses"'}, "san:buf-reject-resize-" + api,
                                sources=[b"a" * 40 + b"\nab", b"b" * 30, b"ab", b""], contents=[b"b", b""],
                                options=["reject"] + LEDGER_OPTS, cdefs=["VF_LEDGER"], san=True))
    # %array: tokens of YYLMAX-1, YYLMAX and YYLMAX+1 characters (with and without yymore carry-over)
    for api in ("NR", "R", "C99"):
        for more in (0, 1):
            ops = [H.OP_MORE]
            act = H.ops_action(ops, api) if more else "{ }"
            name = "YL"
            rules = [H.Rule(R.plus(R.lit('a')), scs=[name], action=act), H.Rule(R.lit('b'), scs=[name], action=act)]
            g = H.Group([(name, True)], rules, name, b"ab", 8, label="yylmax")
            kn = {"VF_YYLMAX": 6, "VF_EXPECT_FATAL": '"token too large"', "VF_BUFSIZES": "0,2", "VF_READ_ONE": 1}
            if more:
                kn.update(VF_OPMASK=H.opmask(*ops), VF_BUDGET_DEFAULT=2, VF_BUDGET_TOTAL=2)
            jobs.append(with_san(dict(groups=[g], api=api, options=["array", "yylmax=6"] + (["reentrant"] if api == "R" else []), cdefs=["VF_ARRAY"],
                                      knobs=kn, tag="yylmax-%s-%d" % (api, more), driver_args=["-H", "100"])))
    # C++ class (no ledger: it allocates with new[] as well)
    a, b, nl = R.lit('a'), R.lit('b'), R.lit(10)
    g = H.Group([("S0", True)], [H.Rule(R.plus(a), scs=["S0"]), H.Rule(R.cat(a, b), scs=["S0"]), H.Rule(b, scs=["S0"], bol=True), H.Rule(nl, scs=["S0"])],
                "S0", b"ab\n", 5, label="c++")
    jobs.append(with_san(dict(groups=[g], api="CXX", options=["c++"], knobs={"VF_BUFSIZES": "0,1,2,3", "VF_READ_ONE": 1}, tag="cxx"), ledger=False))
    jobs.append(with_san(dict(groups=[g], api="CXX", options=["c++", "reject"], knobs={"VF_BUFSIZES": "0,8,32,40000", "VF_READ_ONE": 2}, tag="cxx-reject"), ledger=False))
    # a C++ scanner whose only use of the REJECT machinery is variable trailing context: every member its constructor leaves alone
    # starts with the sanitizer's fill pattern (round-7 seed C13-r7m3)
    gv = H.Group([("S1", True)], [H.Rule(R.plus(a), scs=["S1"], trail=R.cat(R.plus(b), nl)), H.Rule(a, scs=["S1"]), H.Rule(b, scs=["S1"]), H.Rule(nl, scs=["S1"])],
                 "S1", b"ab\n", 5, label="c++ vartrail")
    jobs.append(with_san(dict(groups=[gv], api="CXX", options=["c++"], knobs={"VF_BUFSIZES": "0,8", "VF_READ_ONE": 2}, tag="cxx-vartrail"), ledger=False))
    return jobs


def valgrind_job(args):
    """A few plain (unsanitized) harness scanners under valgrind memcheck: reads of uninitialised memory."""
    job = args
    from .. import build
    flex = build.get_flex()
    wd = H.mkscratch("c13vg")
    try:
        pack = H.Pack(job["groups"], job.get("options", ()))
        if job.get("driver"):
            pack.driver = job["driver"]
        pack.extra_tables = job.get("extra_tables", "")
        pack.prologue = job.get("prologue", "")
        os.makedirs(wd, exist_ok=True)
        tables, stats, _, _, _ = H.emit_tables(pack, job.get("knobs"))
        open(os.path.join(wd, "s_tables.h"), "w").write(tables + pack.extra_tables)
        pack.cdefs = list(job.get("cdefs", ()))
        pack.ops_per_action = (job.get("knobs") or {}).get("VF_OPS_PER_ACTION", 1)
        pack.no_user_init = getattr(pack, "driver", "") == "vf_bufdriver.h"
        api = job.get("api", "NR")
        open(os.path.join(wd, "s.l"), "w").write(H.emit_spec(pack, None, tables_name="s_tables.h", api=api))
        rc, out, err = H.run_flex(flex, list(job.get("flex_args", ())) + ["-o", "s.c", "s.l"], wd)
        if rc:
            return {"error": "flex: " + err[-300:]}
        rc, cerr = H.compile_scanner(wd, "s.c", "s.exe", api=api, defs=job.get("cdefs", ()), flex=flex, extra=["-g"])
        if rc:
            return {"error": "cc: " + cerr[-300:]}
        p = subprocess.run(["valgrind", "-q", "--error-exitcode=99", "--track-origins=no", "./s.exe", "-o", "vg.out", "-T", "100"] + list(job.get("driver_args", ())),
                           cwd=wd, stdout=subprocess.PIPE, stderr=subprocess.PIPE, timeout=900, env=H.ENV)
        return {"rc": p.returncode, "stderr": p.stderr.decode("latin-1")[-1500:], "tag": job["tag"]}
    except subprocess.TimeoutExpired:
        return {"error": "valgrind timeout", "tag": job["tag"]}
    finally:
        shutil.rmtree(wd, ignore_errors=True)


def run(tier):
    ck = Check("C13", tier, "exploration")
    ck.flex()
    quick = tier == "quick"
    jobs = jobs_for(tier)
    tot = dict(executions=0, nontrivial=0, ledger_checks=0, ledger_allocs=0, tokens=0)
    ran = 0
    for job, res in pmap(H.run_groups_job, jobs, check=ck):
        tag = job["tag"]
        if "worker_exception" in res:
            ck.broken.append("worker failed on %s: %s" % (tag, res["worker_exception"]))
            continue
        if "build_failure" in res:
            bf = res["build_failure"]
            if H.harness_own_error(bf):
                ck.broken.append("harness does not compile (%s): %s" % (tag, bf["stderr"][:400]))
            else:
                ck.violation("C13:%s-refused:%s" % (bf["stage"], tag), "%s failed: %s" % (bf["stage"], bf["stderr"][-300:]),
                             files={"s.l": bf["spec"]}, case={"stderr": bf["stderr"]})
            continue
        sm = res["summary"]
        st = res.get("stderr", "")
        if "ERROR: AddressSanitizer" in st or "runtime error:" in st or "LeakSanitizer" in st:
            kind = "asan" if "AddressSanitizer" in st else "ubsan"
            first = [l for l in st.splitlines() if "ERROR: AddressSanitizer" in l or "runtime error:" in l][:1]
            ck.violation("C13:%s:%s" % (kind, tag.split("-")[0]), "sanitizer report in %s: %s" % (tag, (first or [st[-300:]])[0][:300]),
                         case={"stderr": st}, files={"s.l": res.get("spec", "")})
        if sm is None:
            if not ("ERROR: AddressSanitizer" in st or "runtime error:" in st):
                ck.violation("C13:crash:" + tag, "scanner died in %s (rc=%s): %s" % (tag, res["rc"], (res["hard_error"] or st)[-300:]),
                             files={"s.l": res.get("spec", ""), "s_tables.h": res.get("tables", "")}, case={"stderr": st})
            continue
        ran += 1
        for k in tot:
            tot[k] += sm.get(k, 0)
        for v in res["viols"]:
            what = v.get("what", v.get("msg", v["viol"]))
            if v.get("viol") == "ledger":
                sig = "C13:ledger:%s:%s" % (tag.split("-")[0], what.split("(")[0].strip())
            else:
                sig = "C13:behaviour-under-sanitizer:%s:%s" % (tag, what)
            ck.violation(sig, "%s: %s (input %s, history/choices %s %s)" % (tag, what, v.get("input"), v.get("history", ""), v.get("choices")),
                         case={"cmd": v.get("cmd"), "viol": {k: v[k] for k in v if k not in ("spec", "tables", "cmd")}},
                         files={"s.l": v.get("spec", ""), "s_tables.h": v.get("tables", "")})
        if len(ck.samples) < 12:
            ck.sample({"scenario": tag, "executions": sm["executions"], "ledger_checks": sm.get("ledger_checks"), "allocations": sm.get("ledger_allocs")})
    # reads of uninitialised memory: valgrind memcheck on small plain builds
    vjobs = []
    for j in c08.jobs_for("quick")[:6:2]:
        j = copy.copy(j)
        j["knobs"] = dict(j["knobs"], VF_BUDGET_DEFAULT=1, VF_BUDGET_TOTAL=1, VF_BUFSIZES="0,2")
        g = copy.copy(j["groups"][0]); g.maxlen = 3
        j["groups"] = [g]
        vjobs.append(j)
    vjobs.append(BH.make_job("R", [None], {"VF_BUDGET_DEFAULT": 1, "VF_BUDGET_TOTAL": 1, "VF_CALLMASK": 0x1fff, "VF_MAX_OPS": 1, "VF_ACTION_PUSH": 1}, "vg-buf-R"))
    vjobs.append(BH.make_job("NR", [None], {"VF_BUDGET_DEFAULT": 1, "VF_BUDGET_TOTAL": 1, "VF_CALLMASK": 0x1fff, "VF_MAX_OPS": 1, "VF_READ_ONE": 1}, "vg-buf-NR"))
    vg = 0
    for job, r in pmap(valgrind_job, vjobs, check=ck):
        if r.get("error"):
            ck.notes.append("valgrind job %s skipped: %s" % (job.get("tag"), r["error"]))
            continue
        vg += 1
        if r["rc"] == 99 or "uninitialised" in r["stderr"] or "Invalid read" in r["stderr"] or "Invalid write" in r["stderr"]:
            ck.violation("C13:memcheck:" + str(job.get("tag")), "valgrind memcheck reports an error in %s: %s" % (job.get("tag"), r["stderr"][:600]), case=r)
    # loaded tables: "plus yytables_destroy for loaded tables" - three scanners whose table sets are concatenated in all six orders (a set
    # that is not the first in the file is found by skipping the others), ASan build with the ledger: nothing may stay allocated
    from . import c15
    released = 0
    for job, r in pmap(c15.concat_scenario, [(tb, api) for tb in (("-Cem", "-Cf") if tier == "quick" else ("-Cem", "-Cf", "-CFe", "-C")) for api in ("NR", "R")], check=ck):
        if "worker_exception" in r:
            ck.broken.append("tables worker failed: %s" % r["worker_exception"])
            continue
        if "build_error" in r:
            ck.notes.append("loaded-tables scenario %s not built: %s" % (job, str(r["build_error"])[:200]))
            continue
        released += r["counts"].get("concat_scans", 0)
        for kind, what in r["viol"]:
            if kind in ("concat-release", "concat-crash"):
                ck.violation("C13:loaded-tables:%s" % kind, "scanner with tables loaded from a concatenated file (%s %s): %s" % (job[0], job[1], what))
    # loaded tables whose largest entry sits right at the limit of a serialized element width (127/128): an entry stored one size too
    # narrow loads back negative and sends the match loop in front of the heap tables (round-4 seed C13-r4m3)
    nb = 0
    for job, r in pmap(c15.scenario, c15.boundary_jobs(tier == "quick"), check=ck):
        if "worker_exception" in r:
            ck.broken.append("tables worker failed: %s" % r["worker_exception"])
            continue
        if "build_error" in r:
            ck.notes.append("loaded-tables scenario %s not built: %s" % (job, str(r["build_error"])[:200]))
            continue
        nb += r["counts"].get("scans", 0)
        for kind, what in r["viol"]:
            if kind in ("crash", "release"):
                ck.violation("C13:loaded-tables:width-boundary:%s" % kind, "scanner with loaded tables (%s %s): %s" % (job[0], job[1], what[-400:]))
    ck.cov["loaded_table_boundary_scans"] = nb
    ck.guard(nb > 100, "loaded-table width boundary hardly exercised: %d" % nb)
    ck.cov["loaded_table_release_checks"] = released
    ck.guard(released > 50, "loaded-table release hardly exercised: %d" % released)
    ck.cov.update(evaluations=tot["executions"], distinct_nontrivial=tot["nontrivial"], scenarios=ran, ledger_checks=tot["ledger_checks"],
                  allocations_tracked=tot["ledger_allocs"], valgrind_runs=vg, tokens_compared=tot["tokens"],
                  rule="the bounded-exhaustive executions of the C03/C04/C05/C07/C08/C10/C11 harnesses (inputs x read schedules x operation and "
                       "buffer histories, every API and table family) repeated under ASan+UBSan with the allocation ledger: no sanitizer report, "
                       "every pointer freed/realloc'ed is a live block, and after the user's own buffers are deleted and yylex_destroy has run the "
                       "live set is empty; the non-reentrant scanner is destroyed and reused between all executions and must behave as fresh; "
                       "non-trivial = executions with >= 2 tokens from >= 2 rules (or >= 1 operation on >= 2 buffers)")
    ck.assumptions += ["ASan/UBSan/valgrind trusted; MSan not used (needs an instrumented libc): valgrind memcheck covers uninitialised reads on a subset",
                       "memory still held when the fatal-error hook fires is not judged", "the C++ class is run under ASan without the ledger (it also uses new[])"]
    ck.guard(tot["executions"] > 100000 and tot["ledger_checks"] > 10000, "too few sanitized executions / ledger checks: %s" % tot)
    return ck.finish()
