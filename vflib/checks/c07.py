"""C07 - yyreject() visits every alternative match in the documented order
(DESIGN.md section 2, C07).  Every action's accept/reject decision is an
explorer choice, so all decision vectors are executed; the all-reject vector
gives the complete visiting order."""
import itertools, os, shutil
from .. import regex as R, harness as H, specgen
from ..check import Check, pmap

A, B, C_, NL = R.lit('a'), R.lit('b'), R.lit('c'), R.lit(10)
AB = R.cset(b'ab')
DOT = ('set', R.DOT)


def pool():
    return [("a", A, None), ("ab", R.cat(A, B), None), ("abc", R.cat(A, B, C_), None), ("a+", R.plus(A), None),
            ("[ab]+", R.plus(AB), None), ("a/b", A, B), (".", DOT, None), ("a+/b", R.plus(A), B), ("b|ab", R.alt(B, R.cat(A, B)), None),
            ("ab?", R.cat(A, R.opt(B)), None), ("ab*", R.cat(A, R.star(B)), None), ("a?b", R.cat(R.opt(A), B), None),
            # variable-length head and trail: these rules use the REJECT machinery themselves (round-2 seed C07-r2m2)
            ("a+/b+", R.plus(A), R.plus(B)), ("a+/b+c", R.plus(A), R.cat(R.plus(B), C_))]


def groups(L, quick, action, prefix="G", nul=False):
    P = pool()
    sets = [p for p in itertools.permutations(range(len(P)), 2)]
    sets += [p for p in itertools.permutations([0, 1, 3, 4, 9] if quick else [0, 1, 2, 3, 4, 5, 9, 10], 3)]
    sets = [p for p in sets if not (set(p) & {12, 13})]
    sets += [(0, 1, 2, 3, 4), (4, 3, 2, 1, 0), (5, 0, 1, 6), (6, 5, 4, 3), (7, 0, 3, 5), (8, 1, 0, 4), (3, 7, 5, 0, 1, 2)]
    sets += [(12, 0), (0, 12), (12, 3, 1), (13, 0, 1), (13, 3), (3, 13, 4), (12, 13, 0), (13, 2, 6)]
    out = []
    for gi, idx in enumerate(sets):
        name = "%s%d" % (prefix, gi)
        rules = [H.Rule(P[i][1], trail=P[i][2], scs=[name], action=action) for i in idx]
        out.append(H.Group([(name, True)], rules, name, b"abc\n" if any(i in (2, 13) for i in idx) else b"ab\n", L,
                           label="reject:" + " ; ".join(P[i][0] for i in idx)))
    if nul:
        # ordinary rule sets scanned over inputs containing NUL: the automaton jams on the NUL right after matched text
        for k, idx in enumerate([(0, 1, 4), (3, 9, 1), (4, 0, 10), (1, 0)]):
            name = "%sJ%d" % (prefix, k)
            rules = [H.Rule(P[i][1], trail=P[i][2], scs=[name], action=action) for i in idx]
            out.append(H.Group([(name, True)], rules, name, b"ab\0", L, label="reject+NUL-input:" + " ; ".join(P[i][0] for i in idx)))
        Z = R.lit(0)
        name = prefix + "Z"
        rules = [H.Rule(r, scs=[name], action=action) for r in (Z, R.cat(A, Z), R.plus(R.cset(b"a\0")), R.cat(A, Z, A))]
        out.append(H.Group([(name, True)], rules, name, b"a\0b", L, label="reject:\\0 ; a\\0 ; [a\\0]+ ; a\\0a"))
    return out


def refusal_case(args):
    flex_exe, table, variant = args
    spec = {"yyreject()": "%option noyywrap\n%%\na  { yyreject(); }\nab { }\n%%\n",
            "REJECT": "%option noyywrap\n%%\na  { REJECT; }\nab { }\n%%\n",
            # nothing in the actions tells flex about it: only the option does (round-9 seed C07-r9m3)
            "%option reject": "%option noyywrap reject\n%%\na  { MY_BACKTRACK; }\nab { }\n%%\n"}[variant]
    import subprocess, tempfile
    wd = H.mkscratch("c07r")
    try:
        open(os.path.join(wd, "r.l"), "w").write(spec)
        p = subprocess.run([flex_exe, table, "-o", "r.c", "r.l"], cwd=wd, env=H.ENV, stdin=subprocess.DEVNULL,
                           stdout=subprocess.PIPE, stderr=subprocess.PIPE, timeout=60)
        return {"table": table, "variant": variant, "spec": spec, "rc": p.returncode, "stderr": p.stderr.decode("latin-1")[-500:],
                "wrote": os.path.exists(os.path.join(wd, "r.c")) and os.path.getsize(os.path.join(wd, "r.c")) > 0}
    finally:
        shutil.rmtree(wd, ignore_errors=True)


def run(tier):
    ck = Check("C07", tier, "model_checking")
    flex = ck.flex()
    quick = tier == "quick"
    L = 4 if quick else 7
    rej = H.ops_action([H.OP_REJECT])
    knobs = {"VF_OPMASK": H.opmask(H.OP_REJECT), "VF_FREE_OP": 1, "VF_BUDGET_OP": 99, "VF_BUDGET_DEFAULT": 0, "VF_BUDGET_TOTAL": 0}
    jobs = []

    def J(tag, gs, kn, per=40, **kw):
        for ci, ch in enumerate(specgen.chunks(gs, per)):
            j = dict(groups=ch, knobs=dict(kn), tag="%s-%d" % (tag, ci), driver_args=["-H", "300"])
            j.update(kw)
            jobs.append(j)

    J("yyreject", groups(L, quick, rej, nul=True), knobs)
    J("REJECT", groups(L - 1, True, rej.replace("yyreject();", "REJECT;")), knobs)
    J("optreject", groups(L - 1, True, rej)[:60], knobs, options=["reject"])
    # REJECT reachable only through a macro, so that only %option reject tells flex about it (round-5 seed C07-r5m3); the rule sets with
    # variable head and trail come last in groups()
    mg = groups(L - 1, True, rej.replace("yyreject();", "VF_REJ;"))
    J("macro+optreject", mg[:40] + mg[-8:], knobs, options=["reject"], prologue="#define VF_REJ yyreject()")
    # the same with the tables loaded from a file: the serialized accepting lists carry the trailing-context flags (round-5 seed C07-r5m1)
    tg = groups(L - 1, True, rej)
    J("tables-file", tg[:40] + tg[-8:], knobs, options=['tables-file="s.tables"'], cdefs=['VF_TABLES_FILE="s.tables"'])
    J("reentrant", groups(L - 1, True, H.ops_action([H.OP_REJECT], "R"), nul=True), knobs, api="R", options=["reentrant"])
    c99g = groups(L - 1, True, H.ops_action([H.OP_REJECT], "C99"), nul=True)
    J("c99", c99g[:80] + c99g[-5:], knobs, api="C99")
    # rules whose head and trail are both variable, rejecting in their own action, on the c99 skeleton (round-9 seed C07-r9m2: they had
    # been cut out of the c99 job by the slice above)
    J("c99-vartrail", [g for g in c99g if "a+/b+" in g.label], knobs, api="C99")
    J("c99-Ce-one", c99g[:40] + c99g[-5:], dict(knobs, VF_READ_ONE=1, VF_BUFSIZES="0,8"), api="C99", flex_args=["-Ce"])
    J("array", groups(L - 1, True, rej)[:60], knobs, options=["array"], cdefs=["VF_ARRAY"])
    J("Ce-one", groups(L - 1, True, rej)[:80], dict(knobs, VF_READ_ONE=1, VF_BUFSIZES="0,8"), flex_args=["-Ce"])
    J("C-lineno", groups(L - 1, True, rej)[:80], dict(knobs, VF_CHECK_LINENO=1), flex_args=["-C"], options=["yylineno"])
    # overflow: a token longer than a buffer that cannot grow must end in the documented fatal error
    name = "OV"
    ov = H.Group([(name, True)], [H.Rule(R.plus(A), scs=[name], action=rej), H.Rule(B, scs=[name], action=rej)], name,
                 b"ab", 0, [b"aaaaaaa", b"aaaaaab", b"baaaaaaa"], label="reject:overflow a+ ; b")
    J("overflow", [ov], dict(knobs, VF_BUFSIZES="2,3", VF_EXPECT_FATAL='"scanner uses yyreject"'))

    tot = dict(executions=0, tokens=0, choice_points=0, op_effects=0, nontrivial=0, inputs=0, expected_fatals=0, horizons=0)
    groups_done = 0
    ov_expected = None
    for job, res in pmap(H.run_groups_job, jobs, check=ck):
        if "worker_exception" in res:
            ck.broken.append("worker failed on %s: %s" % (job["tag"], res["worker_exception"]))
            continue
        if "build_failure" in res:
            bf = res["build_failure"]
            if H.harness_own_error(bf):
                ck.broken.append("harness does not compile (%s): %s" % (job["tag"], bf["stderr"][:300]))
            else:
                ck.violation("C07:%s-refused:%s" % (bf["stage"], job["tag"].split("-")[0]),
                             "%s failed on a REJECT scanner: %s" % (bf["stage"], bf["stderr"][-300:]),
                             files={"s.l": bf["spec"]}, case={"stderr": bf["stderr"]})
            continue
        sm = res["summary"]
        if sm is None:
            ck.violation("C07:driver-crash:" + job["tag"], "harness scanner died (rc=%s): %s" % (res["rc"], (res["hard_error"] or res["stderr"])[-300:]),
                         files={"s.l": res.get("spec", ""), "s_tables.h": res.get("tables", "")}, case={"stderr": res["stderr"]})
            continue
        for k in tot:
            tot[k] += sm.get(k, 0)
        groups_done += res["ngroups"]
        if job["tag"].startswith("overflow"):
            ov_expected = sm["expected_fatals"]
        if sm.get("overflow") or sm.get("aborted"):
            ck.exhaustive = False
        for v in res["viols"]:
            ck.violation("C07:%s:%s:%s" % (job["tag"].split("-")[0], v["label"], v.get("what", v.get("msg", v["viol"]))),
                         "%s [%s]: input %s decisions %s: %s (expected rule %s len %s, observed rule %s len %s)" % (
                             v["label"], job["tag"], v.get("input"), v.get("choices"), v.get("what", v.get("msg")),
                             v.get("exp_rule"), v.get("exp_len"), v.get("obs_rule"), v.get("obs_len")),
                         case={"cmd": v["cmd"], "viol": {k: v[k] for k in v if k not in ("spec", "tables", "cmd")}},
                         files={"s.l": v["spec"], "s_tables.h": v["tables"]})
        ck.sample({"job": job["tag"], "first": job["groups"][0].label, "executions": sm["executions"], "rejects": sm["ops"][7]})
    if ov_expected is not None and ov_expected == 0:
        ck.violation("C07:overflow-not-reported", "a+ on 'aaaaaaa' with a 2-byte non-growing REJECT buffer did not stop with the documented fatal error")
    # refusals: REJECT with full/fast tables must be refused at generation time
    for tbl in ("-Cf", "-CF", "-Cfe", "-CFe", "-f", "-F"):
      for variant in ("yyreject()", "REJECT", "%option reject"):
        r = refusal_case((flex.exe, tbl, variant))
        ck.add("refusals_checked")
        sfx = tbl if variant == "yyreject()" else "%s:%s" % (tbl, variant)
        if r["rc"] == 0:
            ck.violation("C07:not-refused:" + sfx, "flex accepted %s together with %s (exit 0)" % (variant, tbl), case=r)
        elif not r["stderr"].strip():
            ck.violation("C07:refused-silently:" + sfx, "flex refused %s with %s without a message" % (variant, tbl), case=r)
    ck.cov.update(states=tot["choice_points"], transitions=tot["op_effects"], traces_validated_against_impl=tot["executions"],
                  evaluations=tot["executions"], distinct_nontrivial=tot["nontrivial"], tokens_compared=tot["tokens"],
                  rule_sets=groups_done, inputs=tot["inputs"], expected_overflow_fatals=tot["expected_fatals"],
                  rule="states = accept/reject decision points, transitions = yyreject() executions followed by the model; every decision "
                       "vector of every input up to length L for every rule set; visiting order compared with reference pairs sorted "
                       "by (-total length, rule)")
    ck.assumptions += ["tokens within buffer capacity (REJECT scanners do not grow their buffer); overflow checked separately",
                       "after the last rule has rejected, the default rule takes one character"]
    ck.guard(tot["executions"] > 50000 and tot["op_effects"] > 50000, "too few executions/rejects: %d/%d" % (tot["executions"], tot["op_effects"]))
    return ck.finish()
