"""C12 - scanner instances are isolated from each other and safe to run in parallel (DESIGN.md section 2, C12).

One program links eight generated scanners with different prefixes (reentrant C with the Bison bridge, one of them with
loaded tables; c99; C++ classes; non-reentrant C), csrc/vf_mtdriver.c drives 14 instances of them:

  solo      every instance alone (twice) - the reference log
  inter     one thread: every interleaving of life-cycle steps (create, each yylex(), destroy) of a configuration of 2-4
            instances with at most B switches away from an instance that could continue; a switch may also happen inside
            a step, at the read and allocation callbacks (the other instance's step runs nested)
  threads   one real thread per instance under a serialising scheduler: every schedule with at most B preemptions at the
            same points (ASan build)
  free      all 14 instances on free-running threads under ThreadSanitizer (the scheduler's hand-offs would hide races)
  symbols   nm: no symbol is defined by two scanners, no writable static storage in reentrant scanners

Oracle: each instance's log (tokens with text, length, line, start condition, semantic value, allocation account, foreign
frees) equals the log of the same instance run alone."""
import os, re, shutil, subprocess, json
from .. import harness as H, build
from ..check import Check, pmap

CSRC = H.CSRC

INPUTS = {
    "A1": "ab/*q\\n*/abcab\\nxycz!k", "A2": "cab/*/**/zz\\nabcabc xxab", "A3": "yyx\\n/*a*/b",
    "B1": "abcd 12x\\n7\\nzz", "B2": "a\\n\\n123abc9", "B3": "hello\\n42",
}

FLAVOURS = [
    dict(name="ra", api="r", rs="A", bison=True, alloc=True, opts=[]),
    dict(name="rb", api="r", rs="B", bison=True, alloc=True, opts=['tables-file="rb.tables"'], tables=True),
    dict(name="ca", api="c99", rs="A", alloc=True, opts=["full"]),
    dict(name="cb", api="c99", rs="B", alloc=True, opts=[]),
    dict(name="xa", api="cxx", rs="A", opts=[]),
    dict(name="xb", api="cxx", rs="B", opts=[]),
    dict(name="na", api="nr", rs="A", alloc=True, opts=["array", "full"]),
    dict(name="nb", api="nr", rs="B", alloc=True, opts=[]),
]
INSTANCES = [("ra", "A1", 1), ("ra", "A2", 3), ("rb", "B1", 2), ("rb", "B2", 1), ("ca", "A1", 2), ("ca", "A3", 1), ("cb", "B1", 1), ("cb", "B3", 4),
             ("xa", "A2", 1), ("xa", "A3", 2), ("xb", "B2", 3), ("xb", "B1", 1), ("na", "A1", 1), ("nb", "B2", 1)]
CONFIGS = {"r2": [0, 1], "r3": [0, 1, 2], "rb2": [2, 3], "c2": [4, 5], "c3": [4, 5, 6], "cb2": [6, 7], "x2": [8, 9], "x3": [8, 9, 10],
           "n2": [12, 13], "mix3": [0, 4, 8], "mixn": [12, 2, 6], "mix4": [1, 5, 9, 13], "rb3": [2, 3, 0]}


def action(fl, rule, ops=()):
    api, p = fl["api"], fl["name"]
    IN = {"nr": p + "_cur", "r": "yyextra", "c99": "yyextra", "cxx": "vf_in"}[api]
    sarg = ", yyscanner" if api in ("r", "c99") else ""
    only = "yyscanner" if api in ("r", "c99") else ""
    line = "yylineno" if fl["rs"] == "B" else "0"
    aux = "0L"
    pre = ""
    if fl.get("bison"):
        pre = "*yylval = %d; yylloc->first_line = %s + 1; " % (rule * 7, line)
        aux = "(*yylval + 1000L * yylloc->first_line)"
    L = [pre + "vf_mt_tok(%s, %d, yytext, (long)yyleng, %s, yystart(), %s);" % (IN, rule, line, aux)]
    for o in ops:
        if o == "push":
            L.append("yy_push_state(C%s);" % sarg)
        elif o == "pop":
            L.append("yy_pop_state(%s);" % only)
        elif o == "less":
            L.append("yyless(1);")
        elif o == "more":
            L.append("yymore();")
        elif o == "unput":
            L.append("yyunput('a');")
        elif o == "input":
            inp = "yyinput(yyscanner)" if api == "r" else "yyinput()"
            L.append("{ int vf_c = %s; vf_mt_tok(%s, 90, \"\", 0L, 0, 0, (long)vf_c); }" % (inp, IN))
        elif o == "reject3":
            L.append("if (yyleng > 2) yyreject();")
    L.append("return 1;")
    return "{ " + " ".join(L) + " }"


def rules(fl):
    if fl["rs"] == "A":
        return "\n".join([
            '<INITIAL>"/*"   ' + action(fl, 1, ["push"]),
            '<C>"*/"         ' + action(fl, 2, ["pop"]),
            '<C>.|\\n         ' + action(fl, 3),
            'ab/c            ' + action(fl, 4),
            'abc             ' + action(fl, 5, ["less"]),
            '[a-c]+          ' + action(fl, 6),
            'x               ' + action(fl, 7, ["more"]),
            'y               ' + action(fl, 8, ["unput"]),
            'z               ' + action(fl, 9, ["input"]),
            '\\n              ' + action(fl, 10),
            '.               ' + action(fl, 11),
        ])
    return "\n".join([
        '[a-z]+          ' + action(fl, 1, ["reject3"]),
        '[a-z]{2}        ' + action(fl, 2),
        '[0-9]+/[a-z]    ' + action(fl, 3),
        '[0-9]+          ' + action(fl, 4),
        '\\n              ' + action(fl, 5),
        '.               ' + action(fl, 6),
    ])


def spec(fl):
    api, p = fl["api"], fl["name"]
    o = ['prefix="%s"' % p, "noyywrap"] + list(fl["opts"])
    if fl["rs"] == "A":
        o.append("stack")
    else:
        o.append("yylineno")
    if api == "r":
        o += ["reentrant", 'extra-type="vf_inst *"']
    if api == "c99":
        o += ['emit="c99"', 'extra-type="vf_inst *"', "noyyread"]
    if api == "cxx":
        o += ["c++", 'yyclass="%sLexer"' % p]
    if fl.get("bison"):
        o += ["bison-bridge", "bison-locations"]
    if fl.get("alloc"):
        o += ["noyyalloc", "noyyrealloc", "noyyfree"]
    L = ["%option " + " ".join(o)]
    L += ["%top{", '#include "vf_mt.h"', "#include <stdio.h>", "#include <string.h>"]
    if fl.get("bison"):
        L += ["#define YYSTYPE long", "typedef struct { int first_line, first_column, last_line, last_column; } YYLTYPE;", "#define YYLTYPE YYLTYPE"]
    L += ["}"]
    L += ["%{"]
    if api == "nr":
        L += ["static vf_inst *%s_cur;" % p, "#define YY_INPUT(buf,result,max) ((result) = vf_mt_read(%s_cur, (buf), (int)(max)))" % p]
    if api == "r":
        L += ["#define YY_INPUT(buf,result,max) ((result) = vf_mt_read(yyextra, (buf), (int)(max)))"]
    if api == "c99":
        L += ["static int yyread(char *buf, size_t max, yyscan_t s);"]      # the manual: the user's yyread is declared in the definitions section
    if api == "cxx":
        L += ["class %sLexer : public yyFlexLexer {" % p, "public:", "  vf_inst *vf_in;", "  %sLexer(vf_inst *i) : yyFlexLexer(0, 0), vf_in(i) { }" % p, "  int yylex();",
              "  virtual int LexerInput(char *b, int m) { return vf_mt_read(vf_in, b, m); }", "};"]
    L += ["%}"]
    if fl["rs"] == "A":
        L += ["%x C"]
    L += ["%%", rules(fl), "%%"]
    # adapters
    if api == "nr":
        if fl.get("alloc"):
            L += ["void *yyalloc(yy_size_t n) { return vf_mt_alloc(%s_cur, n); }" % p,
                  "void *yyrealloc(void *q, yy_size_t n) { return vf_mt_realloc(%s_cur, q, n); }" % p,
                  "void yyfree(void *q) { vf_mt_free(%s_cur, q); }" % p]
        L += ["static void *%s_mk(vf_inst *in) { %s_cur = in; return (void *)1; }" % (p, p),
              "static int %s_lex(void *s, vf_inst *in) { (void)s; %s_cur = in; return yylex(); }" % (p, p),
              "static void %s_del(void *s, vf_inst *in) { (void)s; %s_cur = in; yylex_destroy(); }" % (p, p),
              "const vf_adapter %s_adapter = { \"%s\", %s_mk, %s_lex, %s_del, 0 };" % (p, p, p, p, p)]
    elif api in ("r", "c99"):
        st = "size_t" if api == "c99" else "yy_size_t"
        if fl.get("alloc"):
            L += ["void *yyalloc(%s n, yyscan_t s) { return vf_mt_alloc(yyget_extra(s), n); }" % st,
                  "void *yyrealloc(void *q, %s n, yyscan_t s) { return vf_mt_realloc(yyget_extra(s), q, n); }" % st,
                  "void yyfree(void *q, yyscan_t s) { vf_mt_free(yyget_extra(s), q); }"]
        if api == "c99":
            L += ["static int yyread(char *buf, size_t max, yyscan_t s) { return vf_mt_read(yyget_extra(s), buf, (int)max); }"]
        L += ["static void *%s_mk(vf_inst *in) { yyscan_t s; if (yylex_init_extra(in, &s)) return 0; return (void *)s; }" % p]
        if fl.get("bison"):
            L += ["static int %s_lex(void *s, vf_inst *in) { YYSTYPE v = 0; YYLTYPE l; (void)in; memset(&l, 0, sizeof l); return yylex(&v, &l, (yyscan_t)s); }" % p]
        else:
            L += ["static int %s_lex(void *s, vf_inst *in) { (void)in; return yylex((yyscan_t)s); }" % p]
        L += ["static void %s_del(void *s, vf_inst *in) { (void)in; yylex_destroy((yyscan_t)s); }" % p,
              "const vf_adapter %s_adapter = { \"%s\", %s_mk, %s_lex, %s_del, 1 };" % (p, p, p, p, p)]
        if fl.get("tables"):
            L += ["void %s_ginit(void) { yyscan_t s; FILE *f = fopen(\"%s.tables\", \"rb\"); if (!f || yylex_init_extra((vf_inst *)0, &s)) { printf(\"HARNESS-ERROR cannot open tables\\n\"); _exit(4); }"
                  " if (yytables_fload(f, s)) { printf(\"HARNESS-ERROR tables do not load\\n\"); _exit(4); } fclose(f); yylex_destroy(s); }" % (p, p),
                  "void %s_gfini(void) { yyscan_t s; if (!yylex_init_extra((vf_inst *)0, &s)) { yytables_destroy(s); yylex_destroy(s); } }" % p]
    else:
        L += ["static void *%s_mk(vf_inst *in) { return (void *)new %sLexer(in); }" % (p, p),
              "static int %s_lex(void *s, vf_inst *in) { (void)in; return ((%sLexer *)s)->yylex(); }" % (p, p),
              "static void %s_del(void *s, vf_inst *in) { (void)in; delete (%sLexer *)s; }" % (p, p),
              "extern \"C\" { extern const vf_adapter %s_adapter; const vf_adapter %s_adapter = { \"%s\", %s_mk, %s_lex, %s_del, 1 }; }" % (p, p, p, p, p, p)]
    return "\n".join(L) + "\n"


def table_h():
    L = []
    names = [f["name"] for f in FLAVOURS]
    for f in FLAVOURS:
        L.append("extern const vf_adapter %s_adapter;" % f["name"])
        if f.get("tables"):
            L.append("void %s_ginit(void); void %s_gfini(void);" % (f["name"], f["name"]))
    L.append("#define VF_NADAPTERS %d" % len(FLAVOURS))
    L.append("static void (*vf_ginit[])(void) = { %s };" % ", ".join(("%s_ginit" % f["name"]) if f.get("tables") else "0" for f in FLAVOURS))
    L.append("static void (*vf_gfini[])(void) = { %s };" % ", ".join(("%s_gfini" % f["name"]) if f.get("tables") else "0" for f in FLAVOURS))
    L.append("#define VF_NINST %d" % len(INSTANCES))
    L.append("static const struct { const vf_adapter *ad; const char *input; int chunk; } vf_inst_init[] = {")
    for a, i, c in INSTANCES:
        L.append('  { &%s_adapter, "%s", %d },' % (a, INPUTS[i], c))
    L.append("};")
    L.append("#define VF_NCONFIGS %d" % len(CONFIGS))
    L.append("static const struct { const char *name; int n; int inst[VF_NINST]; } vf_configs[] = {")
    for n, ids in CONFIGS.items():
        L.append('  { "%s", %d, { %s } },' % (n, len(ids), ", ".join(map(str, ids))))
    L.append("};")
    return "\n".join(L) + "\n"


SAN = {"plain": ["-O1", "-g"], "asan": ["-O1", "-g", "-fsanitize=address,undefined", "-fno-sanitize-recover=undefined", "-fno-omit-frame-pointer"],
       "tsan": ["-O1", "-g", "-fsanitize=thread"]}


def build_program(flex, wd, log):
    """generate the scanners, compile each as its own object in three variants, link; returns (ok, info)"""
    info = {"objects": {}, "gen_errors": []}
    open(os.path.join(wd, "vf_mt_table.h"), "w").write(table_h())
    for fl in FLAVOURS:
        p = fl["name"]
        open(os.path.join(wd, p + ".l"), "w").write(spec(fl))
        ext = "cc" if fl["api"] == "cxx" else "c"
        rc, out, err = H.run_flex(flex, ["-o", "%s.%s" % (p, ext), p + ".l"], wd)
        if rc != 0 or not os.path.exists(os.path.join(wd, "%s.%s" % (p, ext))):
            info["gen_errors"].append((p, "flex failed: rc=%s %s" % (rc, err[-300:])))
    if info["gen_errors"]:
        return False, info
    for var, flags in SAN.items():
        objs = []
        for fl in FLAVOURS:
            p = fl["name"]
            cxx = fl["api"] == "cxx"
            src = "%s.%s" % (p, "cc" if cxx else "c")
            obj = "%s.%s.o" % (p, var)
            cmd = ["g++" if cxx else "gcc", "-w", "-c", "-I" + CSRC, "-I.", "-I" + flex.incdir] + flags + ["-o", obj, src]
            r = subprocess.run(cmd, cwd=wd, env=H.ENV, stdout=subprocess.PIPE, stderr=subprocess.PIPE, timeout=300)
            if r.returncode != 0:
                info["gen_errors"].append((p, "scanner does not compile (%s): %s" % (var, r.stderr.decode("latin-1")[-400:])))
                return False, info
            objs.append(obj)
        r = subprocess.run(["gcc", "-w", "-c", "-I" + CSRC, "-I."] + flags + ["-o", "drv.%s.o" % var, os.path.join(CSRC, "vf_mtdriver.c")], cwd=wd, env=H.ENV,
                           stdout=subprocess.PIPE, stderr=subprocess.PIPE, timeout=300)
        if r.returncode != 0:
            info["driver_error"] = r.stderr.decode("latin-1")[-600:]
            return False, info
        info["objects"][var] = objs
        r = subprocess.run(["g++", "-o", "mt.%s.exe" % var] + flags + ["drv.%s.o" % var] + objs + ["-lpthread"], cwd=wd, env=H.ENV,
                           stdout=subprocess.PIPE, stderr=subprocess.PIPE, timeout=300)
        if r.returncode != 0:
            info["link_error"] = (var, r.stderr.decode("latin-1")[-800:])
            return False, info
    return True, info


def nm_syms(wd, obj):
    r = subprocess.run(["nm", obj], cwd=wd, stdout=subprocess.PIPE, stderr=subprocess.PIPE)
    out = []
    for l in r.stdout.decode().splitlines():
        f = l.split()
        if len(f) >= 2:
            out.append((f[-2], f[-1]))
    return out


RUNENV = dict(H.ENV, ASAN_OPTIONS="detect_leaks=1:abort_on_error=0:handle_segv=0:handle_abort=0:handle_sigfpe=0:handle_sigbus=0", UBSAN_OPTIONS="print_stacktrace=1",
              TSAN_OPTIONS="halt_on_error=0:report_signal_unsafe=0:exitcode=66")


def run_mode(args):
    wd, exe, argv, limit = args
    try:
        r = subprocess.run(["./" + exe] + argv, cwd=wd, env=RUNENV, stdin=subprocess.DEVNULL, stdout=subprocess.PIPE, stderr=subprocess.PIPE, timeout=limit)
    except subprocess.TimeoutExpired:
        return {"argv": argv, "timeout": True}
    return {"argv": argv, "rc": r.returncode, "out": r.stdout.decode("latin-1"), "err": r.stderr.decode("latin-1")}


def symbol_problems(wd, info):
    """nm over the scanners' objects: (signature, text) for every external definition without its prefix, every writable static object
    in a reentrant scanner, every symbol defined by two scanners"""
    probs = []
    defined = {}
    nsym = 0
    for fl, obj in zip(FLAVOURS, info["objects"]["plain"]):
        p = fl["name"]
        for t, s in nm_syms(wd, obj):
            if t in "TDBRCGSV":
                nsym += 1
                defined.setdefault(s, []).append(p)
                if fl["api"] != "cxx" and not s.lower().startswith(p) and not s.startswith("vf_"):
                    probs.append(("C12:symbols:unprefixed:%s:%s" % (p, s), "scanner %s (prefix %s) defines the external symbol %s without its prefix" % (p, p, s)))
            if t in "bBdDC" and fl["api"] in ("r", "c99") and not s.startswith("vf_") and s != p + "_adapter":
                if fl.get("tables") and re.match(r"(yy|%s)_?(accept|ec|meta|base|def|nxt|chk|acclist|NUL_trans|start_state_list|rule_can_match_eol|transition|dmap|tables_name)$" % p, s.replace(p, "yy", 1) if s.startswith(p) else s):
                    continue       # pointers to the loaded tables: shared, written once by yytables_fload (property: shared read-only data)
                if fl.get("tables") and re.match(r"yy(dmap|tables_name)", s):
                    continue
                probs.append(("C12:symbols:writable-static:%s:%s" % (p, s), "reentrant scanner %s has writable static storage: %s (%s)" % (p, s, t)))
    for s, who in defined.items():
        if len(who) > 1 and not s.startswith("_Z") and not s.startswith("vf_") and not s.startswith("DW.ref."):
            probs.append(("C12:symbols:clash:" + s, "symbol %s is defined by scanners %s" % (s, who)))
    return probs, nsym


def replay_symbols(args):
    want = args[0]
    flex = build.get_flex()
    wd = H.mkscratch("c12r")
    try:
        ok, info = build_program(flex, wd, None)
        if not ok:
            return {"msgs": ["the multi-scanner program does not build: %s" % str(info)[:600]]}
        probs, _ = symbol_problems(wd, info)
        return {"msgs": [w for sig, w in probs if sig == want]}
    finally:
        shutil.rmtree(wd, ignore_errors=True)


def replay_schedule(args):
    """./vf replay: rebuild the multi-scanner program and re-run one recorded run (a mode with its arguments, or one schedule)."""
    argv, choices = args
    flex = build.get_flex()
    wd = H.mkscratch("c12r")
    try:
        ok, info = build_program(flex, wd, None)
        if not ok:
            return {"msgs": ["the multi-scanner program does not build: %s" % str(info)[:600]]}
        exe = "mt.tsan.exe" if argv and argv[0] == "free" else "mt.asan.exe"
        if choices and argv[0] in ("inter", "threads"):
            argv = ["replay", argv[0], argv[1], choices]
        r = run_mode((wd, exe, list(argv), 900))
        out, err = r.get("out", ""), r.get("err", "")
        bad = r.get("timeout") or r.get("rc") != 0 or "MISMATCH" in out or "CRASH" in out or "ThreadSanitizer" in err or "AddressSanitizer" in err
        print(out[-1500:])
        return {"msgs": [("run %s: rc=%s" % (" ".join(argv), r.get("rc")))] if bad else []}
    finally:
        shutil.rmtree(wd, ignore_errors=True)


def run(tier):
    ck = Check("C12", tier, "model_checking")
    flex = ck.flex()
    quick = tier == "quick"
    wd = H.mkscratch("c12")
    try:
        ok, info = build_program(flex, wd, None)
        files = {}
        for fl in FLAVOURS:
            pth = os.path.join(wd, fl["name"] + ".l")
            if os.path.exists(pth):
                files[fl["name"] + ".l"] = open(pth).read()
        if not ok:
            for p, m in info["gen_errors"]:
                print("build problem:", p, m[-800:])
                if "vf_mt.h" in m or "/csrc/" in m:
                    ck.broken.append("harness error building scanner %s: %s" % (p, m[-300:]))
                else:
                    ck.violation("C12:build:" + p, "scanner %s of the multi-scanner program: %s" % (p, m), files=files)
            if "driver_error" in info:
                ck.broken.append("driver does not compile: " + info["driver_error"])
            if "link_error" in info:
                var, m = info["link_error"]
                if "multiple definition" in m:
                    ck.violation("C12:link:multiple-definition", "scanners with different prefixes cannot be linked into one program: " + m[-500:], files=files)
                else:
                    ck.broken.append("link failed (%s): %s" % (var, m[-400:]))
            ck.cov.update(states=1, transitions=1, traces_validated_against_impl=1, notes_build="the multi-scanner program could not be built; nothing was explored")
            return ck.finish()
        # ---------------- symbols
        probs, nsym = symbol_problems(wd, info)
        for sig, what in probs:
            ck.violation(sig, what, files=files, replay={"module": "vflib.checks.c12", "func": "replay_symbols", "args": [sig]})
        # ---------------- exploration
        bound_pair, bound_multi = (2, 1) if quick else (4, 3)
        limit = 100 if quick else 1500
        jobs = [(wd, "mt.asan.exe", ["solo"], 120)]
        for name, ids in CONFIGS.items():
            b = bound_pair if len(ids) == 2 else bound_multi
            jobs.append((wd, "mt.asan.exe", ["inter", name, str(b), str(limit)], limit + 60))
            bt = b if (quick or len(ids) == 2) else b - 1     # the threaded explorer is ~5x slower per execution: one bound less on the larger configurations
            jobs.append((wd, "mt.asan.exe", ["threads", name, str(bt), str(limit)], limit + 60))
        jobs.append((wd, "mt.tsan.exe", ["free", "20" if quick else "200"], 600))
        tot = dict(executions=0, choice_points=0, distinct=0)
        per = {}
        for j, r in pmap(run_mode, jobs, check=ck):
            argv = r["argv"]
            tag = " ".join(argv[:3])
            if r.get("timeout"):
                ck.exhaustive = False
                ck.notes.append("run '%s' hit the process time limit" % tag)
                continue
            out, err = r["out"], r["err"]
            if "HARNESS-ERROR" in out:
                ck.broken.append("harness error in '%s': %s" % (tag, out[-300:]))
                continue
            mm = re.search(r"choices=([0-9,]*)", out)
            replay = {"argv": argv, "choices": mm.group(1) if mm else None}
            if "MISMATCH" in out:
                m = re.search(r"MISMATCH mode=(\S+) config=(\S+) instance=(\d+)\((\w+)\)", out)
                ck.violation("C12:%s:isolation:%s" % (m.group(1), m.group(4)),
                             "instance %s(%s) in configuration %s [%s] does not produce the token stream it produces alone:\n%s" % (
                                 m.group(3), m.group(4), m.group(2), " ".join(argv), out[out.find("MISMATCH"):][:1500]), files=files, case=replay, replay={"module": "vflib.checks.c12", "func": "replay_schedule", "args": [replay["argv"], replay["choices"] or ""]})
                continue
            if "ThreadSanitizer" in err:
                m = re.search(r"WARNING: ThreadSanitizer: ([^\n]*)(.*?)(?:\n\n|$)", err, re.S)
                ck.violation("C12:free:race", "ThreadSanitizer report while all instances ran on free-running threads: %s" % err[err.find("WARNING: ThreadSanitizer"):][:1800], files=files, case=replay, replay={"module": "vflib.checks.c12", "func": "replay_schedule", "args": [replay["argv"], replay["choices"] or ""]})
                continue
            if "CRASH" in out or "SANITIZER-REPORT" in out or "AddressSanitizer" in err or "runtime error" in err or r["rc"] not in (0,):
                ck.violation("C12:%s:crash" % argv[0], "run '%s' failed (rc=%s): %s %s" % (" ".join(argv), r["rc"], out[-600:], err[-1200:]), files=files, case=replay, replay={"module": "vflib.checks.c12", "func": "replay_schedule", "args": [replay["argv"], replay["choices"] or ""]})
                continue
            if argv[0] == "solo":
                ck.sample({"solo": out[:400]})
                continue
            if argv[0] == "free":
                ck.add("free_running_repetitions", int(argv[1]))
                continue
            m = re.search(r"DONE mode=(\w+) config=(\w+) bound=(\d+) executions=(\d+) choice_points=(\d+) distinct_orders=(\d+) timed_out=(\d+) overflow=(\d+)", out)
            if not m:
                ck.broken.append("no summary from '%s': %s" % (tag, out[-200:]))
                continue
            ex, cp, dis, to, ov = int(m.group(4)), int(m.group(5)), int(m.group(6)), int(m.group(7)), int(m.group(8))
            if ov:
                ck.broken.append("choice vector overflow in '%s'" % tag)
            if to:
                ck.exhaustive = False
                bl = re.findall(r"BOUND (\d+) executions=(\d+) .*timed_out=0", out)
                ck.notes.append("'%s': time limit reached; bounds completed: %s" % (tag, [int(b) for b, _ in bl]))
            tot["executions"] += ex
            tot["choice_points"] += cp
            tot["distinct"] += dis
            per[tag] = {"executions": ex, "distinct_global_orders": dis, "bounds": re.findall(r"BOUND (\d+) executions=(\d+)", out)}
            ck.guard(dis > 1 or ex <= 1, "vacuous exploration in '%s': one global order from %d executions" % (tag, ex))
        # scanners with different prefixes sharing one tables file (manual, "Serialized Tables": each finds its own set by name): three
        # prefixed scanners x all six orders of their sets in the file (round-7 seed C12-r7m3)
        from . import c15
        shared = 0
        for cjob, r in pmap(c15.concat_scenario, [("-Cem", "R"), ("-Cf", "NR")] if tier == "quick" else [(tb, api) for tb in ("-Cem", "-Cf", "-CFe") for api in ("NR", "R")], check=ck):
            if "worker_exception" in r or "build_error" in r:
                ck.notes.append("shared tables file scenario %s not built: %s" % (cjob, str(r.get("worker_exception") or r.get("build_error"))[:200]))
                continue
            shared += r["counts"].get("concat_scans", 0)
            for kind, what in r["viol"]:
                ck.violation("C12:shared-tables-file:%s" % kind, "prefixed scanners sharing one tables file (%s %s): %s" % (cjob[0], cjob[1], what[-300:]))
        ck.cov["shared_tables_file_scans"] = shared
        ck.cov.update(states=tot["distinct"], transitions=tot["choice_points"], traces_validated_against_impl=tot["executions"],
                      scanners_linked=len(FLAVOURS), instances=len(INSTANCES), configurations=len(CONFIGS), external_symbols_checked=nsym,
                      bound_pairs=bound_pair, bound_larger=bound_multi, per_run=per,
                      rule="states = distinct global token orders observed; transitions = scheduling decisions taken; traces = complete executions, each "
                           "compared instance by instance with the solo log on the real scanners (there is no separate model: the implementation is explored directly)")
        ck.assumptions += ["scheduling points are the read and allocation callbacks and the API-call boundaries; code between two points runs atomically under the "
                           "serialising scheduler - unsynchronised accesses inside it are the ThreadSanitizer pass's job",
                           "a non-reentrant scanner has one instance, used by one thread (documented)",
                           "tables loaded with yytables_fload are loaded once before any instance runs"]
        ck.guard(tot["executions"] > 1000, "too few executions: %d" % tot["executions"])
        return ck.finish()
    finally:
        shutil.rmtree(wd, ignore_errors=True)
