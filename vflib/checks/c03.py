"""C03 - tokens independent of input delivery; interactive scanners do not
over-read (DESIGN.md section 2, C03).  Environment answers (how many bytes
each read returns) are the explorer's choice points; every composition of the
input length is enumerated for short inputs."""
from .. import regex as R, harness as H
from ..check import Check, pmap

A, B, NL = R.lit('a'), R.lit('b'), R.lit(10)
AB = R.cset(b'ab')
NOTNL = ('set', R.DOT)
ALPHA = b"ab\n"


def groups(L, which=None, action="{ }", long_inputs=False):
    mk = lambda name, rs: [H.Rule(r[0], trail=r[1] if len(r) > 1 and not isinstance(r[1], str) else None,
                                  bol=("bol" in r), scs=[name], action=action) for r in rs]
    defs = {
        "backup": [(R.cat(A, B),), (R.cat(A, B, B, B),), (A,), (B,)],
        "lines": [(R.cat(R.star(NOTNL), NL),), (R.plus(NOTNL),)],
        "fixtrail": [(R.plus(A), B), (A,), (B,), (NL,)],
        "vartrail": [(R.plus(A), R.cat(R.plus(B), NL)), (A,), (B,), (NL,)],
        "bol": [(R.plus(A), "bol"), (A,), (B,), (NL,), (B, A, "bol")],
        # a NUL byte as ordinary input: the end-of-buffer sentinel is a NUL too, so a NUL that is the last byte of a read must not be
        # taken for it (round-2 seed C03-r2m1)
        "nul": [(R.cat(A, R.lit(0), B),), (R.lit(0),), (A,), (B,)],
    }
    out = []
    for name in (which or ["backup", "lines", "fixtrail", "bol", "nul"]):
        rs = defs[name]
        rules = []
        for r in rs:
            trail = r[1] if len(r) > 1 and not isinstance(r[1], str) else None
            rules.append(H.Rule(r[0], trail=trail, bol=("bol" in r), scs=[name.upper()], action=action))
        extras = []
        if long_inputs:
            extras = [b"a" * 41 + b"\n", b"ab" * 20 + b"b\n" + b"abbba", b"b" * 17 + b"a" * 23 + b"b\n\n" + b"a" * 9]
        out.append(H.Group([(name.upper(), True)], rules, name.upper(), b"ab\0" if name == "nul" else ALPHA, L, extras, label=name))
    return out


def jobs_for(tier):
    quick = tier == "quick"
    L = 5 if quick else 8
    allcomp = {"VF_READ_CHOICES": 8, "VF_FREE_READ": 1, "VF_BUDGET_READ": 99, "VF_BUDGET_DEFAULT": 0, "VF_BUDGET_TOTAL": 0}
    sizes = "0,1,2,3,4,5,8"
    FIT = 8 if L <= 6 else 16      # REJECT / variable-trailing-context scanners cannot grow their buffer: sizes every token of length <= L fits in
    jobs = []

    def J(tag, gs, knobs, **kw):
        j = dict(groups=gs, knobs=dict(knobs), tag=tag, driver_args=["-H", "400"])
        j.update(kw)
        jobs.append(j)

    # A. every composition of read sizes x buffer sizes, user input routine
    for api in ("NR", "R"):
        o = ["reentrant"] if api == "R" else []
        for fa, which in (([], None), (["-B"], None), (["-Cf"], ["backup", "lines", "fixtrail", "bol"]),
                          (["-CFe"], ["backup", "lines", "fixtrail"]), (["-Ca"], None)):
            if api == "R" and fa and fa != ["-Cf"]:
                continue
            J("A-%s-%s" % (api, "".join(fa) or "dflt"), groups(L, which), dict(allcomp, VF_BUFSIZES=sizes), api=api, options=o, flex_args=fa)
    # the c99 back end: its own skeleton, same contract
    J("A-C99", groups(L), dict(allcomp, VF_BUFSIZES=sizes), api="C99")
    J("A-C99-Cf", groups(L, ["backup", "lines", "fixtrail", "bol"]), dict(allcomp, VF_BUFSIZES="0,1,2,3"), api="C99", flex_args=["-Cf"])
    J("C-C99", groups(L), {"VF_READ_ONE": 1, "VF_CHECK_OVERREAD": 1, "VF_BUFSIZES": "0,1,2,8"}, flex_args=["-I"], api="C99")
    J("D-C99", groups(L - 1), dict(allcomp, VF_BUFSIZES="0,1,2"), cdefs=["VF_DEFAULT_INPUT=1"], api="C99")
    J("E-C99", groups(L), {}, cdefs=["VF_SOURCE_SCAN=1"], api="C99")
    J("E3-C99", groups(L), {}, cdefs=["VF_SOURCE_SCAN=3"], api="C99")
    c99ops = [H.OP_LESS, H.OP_UNPUT, H.OP_INPUT1, H.OP_INPUT2, H.OP_MORE]
    J("F-C99-ops", groups(L - 1, ["backup", "lines", "fixtrail"], action=H.ops_action(c99ops, "C99")),
      dict(allcomp, VF_BUFSIZES="0,1,2,3", VF_OPMASK=H.opmask(*c99ops), VF_BUDGET_OP=1, VF_BUDGET_TOTAL=1), api="C99")
    nrops = [H.OP_LESS, H.OP_UNPUT, H.OP_INPUT1, H.OP_INPUT2, H.OP_MORE]
    J("F-NR-ops", groups(L - 1, ["backup", "lines", "fixtrail"], action=H.ops_action(nrops, "NR")),
      dict(allcomp, VF_BUFSIZES="0,1,2,3", VF_OPMASK=H.opmask(*nrops), VF_BUDGET_OP=1, VF_BUDGET_TOTAL=1))
    # variable trailing context uses the REJECT machinery: the buffer cannot grow, so only buffers the tokens fit in
    J("A-vartrail", groups(L, ["vartrail"]), dict(allcomp, VF_BUFSIZES="0,%d,%d" % (FIT, 2 * FIT)))
    J("C-vartrail", groups(L, ["vartrail"]), {"VF_READ_ONE": 1, "VF_CHECK_OVERREAD": 1, "VF_BUFSIZES": "0,%d" % FIT}, flex_args=["-I"])
    J("D-vartrail", groups(L, ["vartrail"]), dict(allcomp, VF_BUFSIZES="0,%d" % FIT), cdefs=["VF_DEFAULT_INPUT=1"])
    J("E-vartrail", groups(L, ["vartrail"]), {}, cdefs=["VF_SOURCE_SCAN=1"])
    # B. tokens several times longer than the buffer: <= 2 departures from "all at once", and one byte at a time
    for fa in ([], ["-Cf"]):
        w = None if not fa else ["backup", "lines", "fixtrail", "bol"]
        J("B-dev2" + "".join(fa), groups(0, w, long_inputs=True),
          {"VF_READ_CHOICES": 4, "VF_BUDGET_READ": 2, "VF_BUDGET_DEFAULT": 0, "VF_BUDGET_TOTAL": 2, "VF_BUFSIZES": "0,1,2,3,5,8"}, flex_args=fa)
        J("B-one" + "".join(fa), groups(0, w, long_inputs=True), {"VF_READ_ONE": 1, "VF_BUFSIZES": "0,1,2,3,5,8"}, flex_args=fa)
        J("B-two" + "".join(fa), groups(0, w, long_inputs=True), {"VF_READ_ONE": 2, "VF_BUFSIZES": "0,1,2,3,5,8"}, flex_args=fa)
    # C. interactive scanners: nothing requested beyond the point where no longer match is possible
    for fa in (["-I"], ["-I", "-Ce"], ["-I", "-Cm"], ["-I", "-C"], ["-I", "-Ca"], ["-I", "-Cem"]):
        J("C-" + "".join(fa), groups(L), {"VF_READ_ONE": 1, "VF_CHECK_OVERREAD": 1, "VF_BUFSIZES": "0,1,2,8"}, flex_args=fa)
    J("C-R", groups(L), {"VF_READ_ONE": 1, "VF_CHECK_OVERREAD": 1, "VF_BUFSIZES": "0,2"}, flex_args=["-I"], api="R", options=["reentrant"])
    # D. the scanner's own yyread(): stdio, interactive getc loop, read(2)
    for di, fa in ((1, []), (2, []), (3, ["-Cr"])):
        J("D-%d" % di, groups(L), dict(allcomp, VF_BUFSIZES="0,1,2,3,8"), cdefs=["VF_DEFAULT_INPUT=%d" % di], flex_args=fa)
    J("D-1-R", groups(L - 1), dict(allcomp, VF_BUFSIZES="0,2"), cdefs=["VF_DEFAULT_INPUT=1"], api="R", options=["reentrant"])
    # E. in-memory sources
    for src in (1, 2, 3):
        gsel = ["backup", "lines", "fixtrail", "bol"] if src == 2 else None      # yy_scan_string cannot carry a NUL
        J("E-%d" % src, groups(L, gsel), {}, cdefs=["VF_SOURCE_SCAN=%d" % src])
        J("E-%d-R" % src, groups(L, gsel), {}, cdefs=["VF_SOURCE_SCAN=%d" % src], api="R", options=["reentrant"])
        J("E-%d-Cf" % src, groups(L, ["backup", "lines", "fixtrail", "bol"]), {}, cdefs=["VF_SOURCE_SCAN=%d" % src], flex_args=["-Cf"])
    # F. REJECT scanners (tokens that fit: the buffer cannot grow) and yymore across refills
    rej = H.ops_action([H.OP_REJECT])
    J("F-reject", groups(L - 1, ["backup", "fixtrail"], action=rej),
      dict(allcomp, VF_BUFSIZES="0,%d" % FIT, VF_OPMASK=H.opmask(H.OP_REJECT), VF_BUDGET_OP=1, VF_BUDGET_TOTAL=1))
    more = H.ops_action([H.OP_MORE])
    for arr in (0, 1):
        J("F-more-%d" % arr, groups(L - 1, ["backup", "lines", "fixtrail"], action=more),
          dict(allcomp, VF_BUFSIZES=sizes, VF_OPMASK=H.opmask(H.OP_MORE), VF_BUDGET_OP=2, VF_BUDGET_TOTAL=2),
          options=(["array"] if arr else []), cdefs=(["VF_ARRAY"] if arr else []))
    # yymore() on in-memory sources: a buffer that is never refilled ends in the middle of yymore()'s bookkeeping when the action of
    # its last token asks for more (round-8 seed C03-r8m2: the c99 scanner never reached the end of a yy_scan_string buffer)
    for api in ("NR", "R", "C99"):
        for src in (1, 2, 3):
            J("F-more-scan%d-%s" % (src, api), groups(L - 1, ["backup", "lines", "fixtrail"], action=H.ops_action([H.OP_MORE], api)),
              {"VF_OPMASK": H.opmask(H.OP_MORE), "VF_BUDGET_OP": 2, "VF_BUDGET_DEFAULT": 0, "VF_BUDGET_TOTAL": 2},
              api=api, options=(["reentrant"] if api == "R" else []), cdefs=["VF_SOURCE_SCAN=%d" % src])
    # an identifier that merely looks like REJECT / yymore in an action must not switch the scanner to the machinery that cannot enlarge
    # its buffer (round-8 seed C03-r8m3): tokens several times the buffer size, every delivery
    ident = "{ vf_ctr.reject++; vf_ctr.rejected++; vf_ctr.Reject++; }"
    for ro in (1, 2):
        J("B-ident-%d" % ro, groups(0, None, long_inputs=True, action=ident), {"VF_READ_ONE": ro, "VF_BUFSIZES": "0,1,2,3,5,8"},
          prologue="static struct { int reject, rejected, Reject; } vf_ctr;")
    return jobs


def run(tier):
    ck = Check("C03", tier, "model_checking")
    ck.flex()
    tot = dict(executions=0, tokens=0, choice_points=0, nontrivial=0, inputs=0, reads=0, overread_checks=0, horizons=0)
    for job, res in pmap(H.run_groups_job, jobs_for(tier), check=ck):
        if "worker_exception" in res:
            ck.broken.append("worker failed on %s: %s" % (job["tag"], res["worker_exception"]))
            continue
        if "build_failure" in res:
            bf = res["build_failure"]
            if H.harness_own_error(bf):
                ck.broken.append("harness does not compile (%s): %s" % (job["tag"], bf["stderr"][:300]))
            else:
                ck.violation("C03:%s-refused:%s" % (bf["stage"], job["tag"]), "%s failed: %s" % (bf["stage"], bf["stderr"][-300:]),
                             files={"s.l": bf["spec"]}, case={"stderr": bf["stderr"], "flex_args": job.get("flex_args")})
            continue
        sm = res["summary"]
        if sm is None:
            ck.violation("C03:driver-crash:" + job["tag"], "harness scanner died (rc=%s): %s" % (res["rc"], (res["hard_error"] or res["stderr"])[-300:]),
                         files={"s.l": res.get("spec", ""), "s_tables.h": res.get("tables", "")}, case={"stderr": res["stderr"]})
            continue
        for k in tot:
            tot[k] += sm.get(k, 0)
        if sm.get("overflow") or sm.get("aborted"):
            ck.exhaustive = False
            ck.notes.append("choice-vector cap hit in " + job["tag"])
        for v in res["viols"]:
            what_ = v.get("what", v.get("msg", v["viol"]))
            ck.violation(("C03:overread:%s:%s" % (v["label"], job["tag"])) if "beyond the end of the longest possible match" in str(what_) else
                         "C03:%s:%s:%s" % (job["tag"], v["label"], what_),
                         "%s/%s: input %s bufsize %s read choices %s: %s (expected rule %s len %s, observed rule %s len %s)" % (
                             job["tag"], v["label"], v.get("input"), v.get("bufsize"), v.get("choices"), v.get("what", v.get("msg")),
                             v.get("exp_rule"), v.get("exp_len"), v.get("obs_rule"), v.get("obs_len")),
                         case={"cmd": v["cmd"], "viol": {k: v[k] for k in v if k not in ("spec", "tables", "cmd")}},
                         files={"s.l": v["spec"], "s_tables.h": v["tables"]})
        ck.sample({"job": job["tag"], "inputs": sm["inputs"], "executions": sm["executions"], "reads": sm["reads"]})
    ck.cov.update(states=tot["choice_points"] + tot["inputs"], transitions=tot["reads"], traces_validated_against_impl=tot["executions"],
                  evaluations=tot["executions"], distinct_nontrivial=tot["nontrivial"], tokens_compared=tot["tokens"],
                  inputs=tot["inputs"], overread_checks=tot["overread_checks"], horizon_cuts=tot["horizons"],
                  rule="states = inputs + read-size choice points, transitions = read requests answered; an execution = input x buffer "
                       "size x composition of read sizes x source, compared with the whole-input reference token stream")
    ck.assumptions += ["over-read clause checked with a one-byte-per-request input routine on -I scanners; 'no longer match possible' = "
                       "the reference DFA state has no out-transition (patterns with empty classes not generated)",
                       "REJECT scanners and yy_scan_buffer only with tokens that fit (documented)"]
    ck.guard(tot["executions"] > 100000, "too few executions: %d" % tot["executions"])
    ck.guard(tot["overread_checks"] > 1000, "over-read oracle never evaluated")
    return ck.finish()
