"""C15 - serialized tables round-trip and follow the documented file format
(DESIGN.md section 2, C15)."""
import itertools, os, shutil, subprocess
from .. import regex as R, harness as H, tblfile, build
from ..check import Check, pmap

A, B, C_, NL, Z = R.lit('a'), R.lit('b'), R.lit('c'), R.lit(10), R.lit(0)
TABLES = ["-Cem", "-Cm", "-Ce", "-C", "-Cf", "-Cfe", "-CF", "-CFe"]


class _RuleSets(dict):
    """Named rule sets, plus the parametric family 'chain:N' - a{N} and three small rules: the number of DFA states, and with it the
    largest entry of the state-valued tables, grows by one with N, so a sweep of N walks the largest entry across the 8-bit limit of
    the serialized element width (127 / 128: round-4 seed C13-r4m3)."""
    def __missing__(self, name):
        if name.startswith("chain:"):
            n = int(name.split(":")[1])
            return [(R.rep(A, n, n),), (R.plus(B),), (NL,), (C_,)]
        raise KeyError(name)


def chain_inputs(name):
    n = int(name.split(":")[1])
    return [b"a" * n, b"a" * (n - 1) + b"b", b"a" * (n + 1) + b"\n", b"b" + b"a" * n + b"ca", b"a" * (2 * n) + b"bb"]


def rule_sets():
    return _RuleSets({
        "kw": [(R.cat(A, B),), (R.cat(A, B, B, B),), (R.plus(A),), (B,), (NL,), (R.plus(R.cset(b"c")), dict(bol=True))],
        "trail": [(R.plus(A), dict(trail=B)), (R.cat(A, B), dict(eol=True)), (A,), (B,), (NL,), (C_,)],
        "nul": [(Z,), (R.cat(A, Z, B),), (R.plus(R.cset(b"a\0")),), (B,), (NL,), (C_,)],
        "vartrail": [(R.plus(R.cset(b"ab")), dict(trail=R.cat(R.plus(C_), NL))), (A,), (B,), (C_,), (NL,)],
    })


INPUTS = [b"", b"ab", b"abbb\naab", b"abba\ncc\nc", b"a\0b\0\0ab", b"abcc\nab\n", b"aab\nabb\nccab", b"ba\n\nab\n"]


def make_pack(rs_name, options=()):
    rules = []
    for r in rule_sets()[rs_name]:
        kw = dict(r[1]) if len(r) > 1 else {}
        rules.append(H.Rule(r[0], scs=None, **kw))
    g = H.Group([], rules, "INITIAL", b"ab", 0, label="tbl:" + rs_name)
    pack = H.Pack([g], list(options))
    pack.driver = "vf_tbldriver.h"
    pack.no_user_init = True
    return pack


def py_tokens(pack, data):
    """Reference token stream [(rule, length)] for INITIAL, computed in Python from the reference DFAs."""
    _, _, dfas, part, start = H.emit_tables(pack, {})
    cls = part[0]
    nrules = len(pack.numbered_rules())
    trail = {n: r for n, gi, r in pack.numbered_rules() if r.trail_ast() is not None}
    from .. import refsem
    out, pos, bol = [], 0, True
    while pos < len(data):
        d = dfas[start[0][1 if bol else 0]]
        q, best = 0, None
        for i in range(pos, len(data)):
            q = d.trans[q][cls[data[i]]]
            if q < 0:
                break
            if d.acc[q]:
                best = (i + 1 - pos, d.acc[q][0])
        if best is None:
            n, rule = 1, nrules + 1
        else:
            n, rule = best
            if rule in trail:
                r = trail[rule]
                hd = refsem.build_dfa([(0, r.head)])
                td = refsem.build_dfa([(0, r.trail_ast())])
                ks = [k for k in range(0, n + 1) if hd.accepts(data[pos:pos + k]) and td.accepts(data[pos + k:pos + n])]
                n = ks[-1] if len(ks) == 1 else ks      # ambiguous splits: any member
        if isinstance(n, list):
            out.append((rule, tuple(n)))
            n = n[-1]
        else:
            out.append((rule, n))
        if n > 0:
            bol = data[pos + n - 1] == 10
        pos += max(n, 1) if n == 0 else n
    return out


def build_scanner(args):
    """Generate + compile one tables-file scanner; returns dict with workdir (kept), or error."""
    rs, tb, api, extra_opts, prefix, verify, san = args
    flex = build.get_flex()
    wd = H.mkscratch("c15")
    opts = ["noyyalloc", "noyyrealloc", "noyyfree", 'tables-file="t.tables"'] + list(extra_opts)
    if api == "R":
        opts.append("reentrant")
    if prefix:
        opts.append('prefix="%s"' % prefix)
    if verify:
        opts.append("tables-verify")
    pack = make_pack(rs, opts)
    tables, _, _, _, _ = H.emit_tables(pack, {})
    open(os.path.join(wd, "s_tables.h"), "w").write(tables)
    pack.cdefs = ["VF_LEDGER"]
    pack.ops_per_action = 1
    open(os.path.join(wd, "s.l"), "w").write(H.emit_spec(pack, None, tables_name="s_tables.h", api=api))
    rc, out, err = H.run_flex(flex, [tb, "-8", "-o", "s.c", "s.l"], wd)
    if rc:
        shutil.rmtree(wd, ignore_errors=True)
        return {"error": "flex", "stderr": err, "args": args}
    rc, cerr = H.compile_scanner(wd, "s.c", "s.exe", api=api, defs=["VF_LEDGER"], san=san, flex=flex)
    if rc:
        spec = open(os.path.join(wd, "s.l")).read()
        shutil.rmtree(wd, ignore_errors=True)
        return {"error": "cc", "stderr": cerr[-1500:], "args": args, "spec": spec}
    if not os.path.exists(os.path.join(wd, "t.tables")):
        shutil.rmtree(wd, ignore_errors=True)
        return {"error": "no-tables-file", "stderr": err, "args": args}
    return {"wd": wd, "args": args, "flex_stderr": err}


def run_exe(wd, argv, timeout=300):
    env = dict(H.ENV, ASAN_OPTIONS="detect_leaks=0")
    if argv and argv[0] == "scan":
        timeout = min(timeout, 30)          # a scan of a few hundred bytes takes milliseconds; a scanner that loops is reported, not waited for
    try:
        p = subprocess.run([os.path.join(wd, "s.exe")] + argv, cwd=wd, env=env, stdin=subprocess.DEVNULL, stdout=subprocess.PIPE,
                           stderr=subprocess.PIPE, timeout=timeout)
    except subprocess.TimeoutExpired as e:
        return -999, (e.stdout or b"").decode("latin-1"), "no result after %d s (the scanner loops) " % timeout + (e.stderr or b"").decode("latin-1")[-200:]
    return p.returncode, p.stdout.decode("latin-1"), p.stderr.decode("latin-1")


def parse_tokens(line):
    toks = []
    for t in line.split():
        a, l, ln = t.split(":")
        toks.append((int(a), int(l)))
    return toks


def tokens_ok(exp, obs):
    if len(exp) != len(obs):
        return False
    for (er, el), (orr, ol) in zip(exp, obs):
        if er != orr:
            return False
        if isinstance(el, tuple):
            if ol not in el:
                return False
        elif el != ol:
            return False
    return True


def scenario(args):
    """One (rule set, table representation, API, options) scenario: format, round trip, truncation, mutation."""
    rs, tb, api, extra_opts, do_trunc, do_mut = args
    res = {"args": args, "viol": [], "counts": {}}
    b = build_scanner((rs, tb, api, extra_opts, None, False, True))
    if "error" in b:
        res["build_error"] = b
        return res
    wd = b["wd"]
    try:
        raw = open(os.path.join(wd, "t.tables"), "rb").read()
        # (1) documented layout
        try:
            sets = tblfile.parse(raw)
            if len(sets) != 1 or sets[0]["name"] != b"yytables":
                res["viol"].append(("format", "expected one set named yytables, got %s" % [s["name"] for s in sets]))
            res["counts"]["tables"] = len(sets[0]["tables"])
            res["counts"]["file_bytes"] = len(raw)
            res["table_ids"] = [t["name"] for t in sets[0]["tables"]]
        except tblfile.FormatError as e:
            res["viol"].append(("format", "file does not follow the documented layout: %s" % e))
            sets = None
        # (2) round trip: behaviour after yytables_fload equals the reference, everything released afterwards
        pack = make_pack(rs, extra_opts)
        n = 0
        for inp in (chain_inputs(rs) + INPUTS[1:3] if rs.startswith("chain:") else INPUTS):
            rc, out, err = run_exe(wd, ["scan", "t.tables", inp.hex()])
            n += 1
            lines = out.splitlines()
            load = [l for l in lines if l.startswith("LOAD")]
            toks = [l for l in lines if l.startswith("TOKENS")]
            unl = [l for l in lines if l.startswith("UNLOAD")]
            if rc != 0 or "AddressSanitizer" in err or "runtime error" in err:
                res["viol"].append(("crash", "scan of %s: rc=%s %s" % (inp.hex(), rc, err[-400:])))
                continue
            if not load or not load[0].startswith("LOAD S"):
                res["viol"].append(("load", "yytables_fload failed on the file flex wrote: %s" % (load or lines)[:1]))
                continue
            exp = py_tokens(pack, inp)
            obs = parse_tokens(toks[0][7:]) if toks else None
            if obs is None or not tokens_ok(exp, obs):
                res["viol"].append(("roundtrip", "input %s: expected %s, scanner with loaded tables gave %s" % (inp.hex(), exp, obs)))
            if not unl or "||" not in unl[0].replace("UNLOAD ", "", 1)[:2] and not unl[0].startswith("UNLOAD ||"):
                pass
            if unl:
                body = unl[0][7:]
                m, rest = body.split("|", 1)
                lmsg = rest.split(" live_before")[0]
                if m.strip() or lmsg.strip() or not body.rstrip().endswith("errors=0"):
                    res["viol"].append(("release", "after yylex_destroy + yytables_destroy: %s" % body.strip()))
        res["counts"]["scans"] = n
        # (3) every truncation length and a damaged magic number must make loading fail, cleanly
        if do_trunc:
            rc, out, err = run_exe(wd, ["trunc", "t.tables"], timeout=600)
            lines = out.splitlines()
            if rc != 0 or "AddressSanitizer" in err or "runtime error" in err:
                last = lines[-1] if lines else ""
                res["viol"].append(("trunc-crash", "loader crashed (rc=%s) at attempt '%s': %s" % (rc, last[:40], err[-500:])))
            nt = 0
            for l in lines:
                f = l.split(" ", 3)
                if len(f) < 3:
                    continue
                kind, pos, r = f[0], f[1], f[2]
                tail = f[3] if len(f) > 3 else ""
                nt += 1
                led = tail.split("|")
                if kind in ("T", "G") and r == "S":
                    res["viol"].append(("trunc-accepted", "%s: yytables_fload reported success" % (
                        "file truncated to %s of %d bytes" % (pos, len(raw)) if kind == "T" else "magic number byte %s damaged" % pos)))
                if kind == "W" and r != "S":
                    res["viol"].append(("load", "intact file refused in the sweep: %s" % l))
                if len(led) >= 3 and (led[1].strip() or led[2].strip() not in ("0", "")):
                    res["viol"].append(("trunc-release", "after a failed load (%s %s): %s" % (kind, pos, tail)))
            res["counts"]["truncations"] = nt
            if nt < len(raw):
                res["viol"].append(("trunc-crash", "truncation sweep stopped after %d of %d attempts: %s" % (nt, len(raw) + 5, err[-300:])))
    finally:
        shutil.rmtree(wd, ignore_errors=True)
    # (4) --tables-verify: success exactly when the file's tables agree with the in-code ones
    if do_mut and sets is not None:
        b = build_scanner((rs, tb, api, extra_opts, None, True, False))
        if "error" in b:
            res["build_error_verify"] = b
            return res
        wd = b["wd"]
        try:
            raw2 = open(os.path.join(wd, "t.tables"), "rb").read()
            rc, out, err = run_exe(wd, ["scan", "t.tables", "6162"])
            if "LOAD S" not in out:
                res["viol"].append(("verify-own", "a --tables-verify scanner does not verify against its own tables file: %s %s" % (out[:200], err[-200:])))
            else:
                layout = tblfile.parse(raw2)[0]
                region = {}
                for o in range(0, 4):
                    region[o] = "magic"
                for o in range(4, 12):
                    region[o] = "sizes"                       # th_hsize / th_ssize: used for navigation only, not judged
                for o in range(12, 14):
                    region[o] = "neutral"                     # th_flags: documented as unused
                vend = 14 + len(layout["version"])
                for o in range(14, vend):
                    region[o] = "neutral"                     # version text
                nend = vend + 1 + len(layout["name"]) + 1
                for o in range(vend, nend):
                    region[o] = "name"                        # terminators and set name: not judged
                for o in range(nend, layout["hsize"]):
                    region[o] = "neutral"                     # header padding
                for t in layout["tables"]:
                    b0 = t["offset"]
                    nbytes = len(t["data"]) * t["width"]
                    for o in range(b0, b0 + 2):
                        region[o] = "id"
                    for o in range(b0 + 2, b0 + 4):
                        region[o] = "flags"
                    for o in range(b0 + 4, b0 + 12):
                        region[o] = "dims"
                    for o in range(b0 + 12, b0 + 12 + nbytes):
                        region[o] = "data"
                    for o in range(b0 + 12 + nbytes, b0 + t["size"]):
                        region[o] = "neutral"                 # table padding
                rc, out, err = run_exe(wd, ["mutate", "t.tables"], timeout=900)
                nm = nagree = 0
                for l in out.splitlines():
                    f = l.split()
                    if len(f) != 4 or f[0] != "M":
                        continue
                    off, mask, r = int(f[1]), int(f[2]), f[3]
                    nm += 1
                    reg = region.get(off, "?")
                    if reg == "neutral":
                        nagree += 1
                        if r != "S":
                            res["viol"].append(("verify-false-alarm", "byte %d ^ %#x lies in padding / version text / unused flags but "
                                                "verification reported %s" % (off, mask, r)))
                    elif reg in ("data", "id", "magic"):
                        if r == "S":
                            res["viol"].append(("verify-missed-" + reg, "byte %d ^ %#x changes %s but verification reported success" % (
                                off, mask, {"data": "a table element", "id": "a table identifier", "magic": "the magic number"}[reg])))
                    elif reg == "dims":
                        tt = [t for t in layout["tables"] if t["offset"] + 4 <= off < t["offset"] + 12][0]
                        in_hilen = off < tt["offset"] + 8
                        if in_hilen and tt["hilen"] == 0 and mask == 1 and off == tt["offset"] + 7:
                            continue                # td_hilen 0 -> 1: still the same one-dimensional data
                        if r == "S":
                            res["viol"].append(("verify-missed-dims", "byte %d ^ %#x changes a table's td_hilen/td_lolen but verification reported success" % (off, mask)))
                res["counts"]["mutations"] = nm
                res["counts"]["mutations_semantically_neutral"] = nagree
                if nm < 2 * len(raw2):
                    res["viol"].append(("mutate-crash", "mutation sweep incomplete: %d of %d (%s)" % (nm, 2 * len(raw2), err[-200:])))
        finally:
            shutil.rmtree(wd, ignore_errors=True)
    return res


def concat_scenario(args):
    """Three scanners with different prefixes and rule sets; their table sets concatenated in every order."""
    tb, api = args
    res = {"args": args, "viol": [], "counts": {}}
    names = [("pa", "kw"), ("pb", "trail"), ("pc", "nul")]
    built = []
    try:
        for prefix, rs in names:
            b = build_scanner((rs, tb, api, [], prefix, False, True))
            if "error" in b:
                res["build_error"] = b
                return res
            built.append((prefix, rs, b["wd"]))
        raws = {p: open(os.path.join(wd, "t.tables"), "rb").read() for p, rs, wd in built}
        for p in raws:
            try:
                s = tblfile.parse(raws[p])
                if s[0]["name"] != (p + "tables").encode():
                    res["viol"].append(("set-name", "prefix %s: set is named %r" % (p, s[0]["name"])))
            except tblfile.FormatError as e:
                res["viol"].append(("format", "prefix %s: %s" % (p, e)))
        n = 0
        for order in itertools.permutations([p for p, _, _ in built]):
            blob = b"".join(raws[p] for p in order)
            try:
                if len(tblfile.parse(blob)) != 3:
                    res["viol"].append(("format", "concatenation %s does not parse as three sets" % (order,)))
            except tblfile.FormatError as e:
                res["viol"].append(("format", "concatenation %s: %s" % (order, e)))
            for prefix, rs, wd in built:
                open(os.path.join(wd, "all.tables"), "wb").write(blob)
                pack = make_pack(rs, [])
                for inp in INPUTS[2:6]:
                    rc, out, err = run_exe(wd, ["scan", "all.tables", inp.hex()])
                    n += 1
                    lines = out.splitlines()
                    toks = [l for l in lines if l.startswith("TOKENS")]
                    unl = [l for l in lines if l.startswith("UNLOAD")]
                    if rc != 0 or "AddressSanitizer" in err:
                        res["viol"].append(("concat-crash", "order %s scanner %s: rc=%s %s" % (order, prefix, rc, err[-300:])))
                        continue
                    if "LOAD S" not in out:
                        res["viol"].append(("concat-load", "order %s: scanner %s did not find its set: %s" % (order, prefix, out[:150])))
                        continue
                    exp = py_tokens(pack, inp)
                    obs = parse_tokens(toks[0][7:]) if toks else None
                    if obs is None or not tokens_ok(exp, obs):
                        res["viol"].append(("concat-tokens", "order %s scanner %s input %s: expected %s got %s" % (order, prefix, inp.hex(), exp, obs)))
                    if unl:
                        body = unl[0][7:]
                        m, rest = body.split("|", 1)
                        if m.strip() or rest.split(" live_before")[0].strip() or not body.rstrip().endswith("errors=0"):
                            res["viol"].append(("concat-release", "order %s scanner %s: %s" % (order, prefix, body.strip())))
        res["counts"]["concat_scans"] = n
    finally:
        for _, _, wd in built:
            shutil.rmtree(wd, ignore_errors=True)
    return res


def prefix_sweep(args):
    """the set name in the header is <prefix>tables, NUL-terminated and padded to 8 bytes: every prefix length 1..17 (round-7 seed C15-r7m3)"""
    flex_exe, n = args
    wd = H.mkscratch("c15p")
    try:
        prefix = ("pqrstuvwxyzabcdefgh")[:n]
        open(os.path.join(wd, "p.l"), "w").write('%%option noyywrap prefix="%s" tables-file="p.tables"\n%%%%\na+ return 1;\n.|\\n ;\n%%%%\n' % prefix)
        p = subprocess.run([flex_exe, "-o", "p.c", "p.l"], cwd=wd, env=H.ENV, stdin=subprocess.DEVNULL, stdout=subprocess.PIPE, stderr=subprocess.PIPE, timeout=60)
        if p.returncode != 0:
            return {"n": n, "viol": "flex failed for a prefix of %d characters: %s" % (n, p.stderr.decode("latin-1")[-200:])}
        try:
            sets = tblfile.parse(open(os.path.join(wd, "p.tables"), "rb").read())
        except (tblfile.FormatError, OSError) as e:
            return {"n": n, "viol": "tables file for a prefix of %d characters does not follow the documented layout: %s" % (n, e)}
        if len(sets) != 1 or sets[0]["name"] != (prefix + "tables").encode():
            return {"n": n, "viol": "set name for prefix %r is %r" % (prefix, [x["name"] for x in sets])}
        return {"n": n, "viol": None}
    finally:
        shutil.rmtree(wd, ignore_errors=True)


def boundary_jobs(quick):
    """chain:N for N around the point where the number of DFA states (largest entry of yy_nxt / yy_chk / yy_def) crosses 127/128"""
    ns = range(118, 135) if quick else range(100, 150)
    return [("chain:%d" % n, tb, "NR", [], False, False) for n in ns for tb in (("-Cf", "-Cem") if quick else ("-Cf", "-Cfe", "-CF", "-Cem", "-C"))]


def run(tier):
    ck = Check("C15", tier, "model_checking")
    ck.flex()
    quick = tier == "quick"
    jobs = []
    for rs in ("kw", "trail", "nul"):
        for tb in TABLES:
            for api in ("NR", "R"):
                heavy = (api == "NR") if quick else True
                jobs.append((rs, tb, api, [], heavy, heavy and (not quick or rs == "kw" or tb in ("-Cem", "-CF", "-Cf"))))
    for tb in ("-Cem", "-Cm", "-Ce", "-C"):
        jobs.append(("vartrail", tb, "NR", [], True, True))            # acclist table with trailing-context flags
        jobs.append(("kw", tb, "NR", ["reject"], True, not quick))
        jobs.append(("trail", tb, "NR", ["yylineno"], True, not quick))
    for tb in ("-Cf", "-CFe"):
        jobs.append(("trail", tb, "R", ["yylineno"], True, not quick))
    jobs += boundary_jobs(quick)
    cjobs = [(tb, api) for tb in (("-Cem", "-Cf", "-CFe") if quick else TABLES) for api in ("NR", "R")]
    tot = {}
    nscen = 0
    ids_seen = set()
    results = list(pmap(scenario, jobs, check=ck)) + list(pmap(concat_scenario, cjobs, check=ck))
    for job, res in results:
        if "worker_exception" in res:
            ck.broken.append("worker failed on %s: %s" % (job, res["worker_exception"]))
            continue
        tag = "/".join(str(x) for x in (job[:4] if len(job) > 2 else job))
        for key in ("build_error", "build_error_verify"):
            if key in res:
                be = res[key]
                if be["error"] == "cc" and "/csrc/" in be.get("stderr", "").split("error")[0][-200:]:
                    ck.broken.append("harness does not compile (%s): %s" % (tag, be["stderr"][:400]))
                else:
                    ck.violation("C15:%s:%s" % (be["error"], tag), "%s failed for a tables-file scanner (%s): %s" % (be["error"], tag, be.get("stderr", "")[-400:]),
                                 case=be, files={"s.l": be.get("spec", "")})
        nscen += 1
        for k, v in res.get("counts", {}).items():
            tot[k] = tot.get(k, 0) + v
        ids_seen.update(res.get("table_ids", []))
        for kind, what in res["viol"]:
            sig = "C15:tables-verify:dimensions-not-compared" if kind == "verify-missed-dims" else "C15:%s:%s" % (kind, tag)
            ck.violation(sig, "%s: %s" % (tag, what), case={"scenario": job})
        if len(ck.samples) < 10:
            ck.sample({"scenario": tag, "counts": res.get("counts"), "tables": res.get("table_ids")})
    flex = ck.flex()
    for job, r in pmap(prefix_sweep, [(flex.exe, n) for n in range(1, 18)], check=ck):
        if "worker_exception" in r:
            ck.broken.append("prefix sweep worker failed: %s" % r["worker_exception"])
        elif r["viol"]:
            ck.violation("C15:header-name:prefix-length-%d" % r["n"], r["viol"])
        tot["prefix_lengths"] = tot.get("prefix_lengths", 0) + 1
    states = tot.get("truncations", 0) + tot.get("mutations", 0)
    ck.cov.update(states=max(states, 1), transitions=max(tot.get("mutations", 0), 1), traces_validated_against_impl=tot.get("scans", 0) + tot.get("concat_scans", 0),
                  evaluations=states + tot.get("scans", 0) + tot.get("concat_scans", 0), distinct_nontrivial=tot.get("mutations", 0) - tot.get("mutations_semantically_neutral", 0),
                  scenarios=nscen, table_kinds_seen=sorted(ids_seen), **{k: v for k, v in tot.items()},
                  rule="states = load attempts (every truncation length + every single-byte mutation x 2 masks), transitions = mutations judged "
                       "against the independent parse; traces = scans with loaded tables compared with the reference token stream; scenario = "
                       "rule set x table representation x API x options (reject, yylineno, variable trailing context)")
    ck.assumptions += ["only truncation and a damaged magic number are required to fail cleanly in a plain tables-file scanner; arbitrary corruption is "
                       "judged only through --tables-verify (success iff the independently decoded tables are unchanged), each attempt in a forked child",
                       "th_flags is documented as unused and the version text is informational: mutations there must not fail verification"]
    ck.guard(tot.get("truncations", 0) > 1000 and tot.get("mutations", 0) > 1000, "too few load attempts: %s" % tot)
    ck.guard(len(ids_seen) >= 9, "too few table kinds serialized: %s" % sorted(ids_seen))
    return ck.finish()
