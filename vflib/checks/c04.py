"""C04 - NUL and 8-bit bytes are ordinary input characters (DESIGN.md section 2, C04)."""
import itertools, os, shutil, subprocess
from .. import regex as R, harness as H, specgen
from ..check import Check, pmap

Z, H80, HFF, A, B = R.lit(0), R.lit(0x80), R.lit(0xff), R.lit('a'), R.lit('b')
ALPHA = bytes([0, 0x80, 0xff, ord('a'), ord('b')])
ATOMS = [Z, H80, HFF, A, ('set', frozenset(R.ALL - {ord('a')})), ('set', R.DOT), ('set', frozenset(range(0, 128))),
         ('set', frozenset({0, 0xff})), ('set', frozenset(range(128, 256))), ('set', frozenset(R.ALL - {0, ord('a')}))]     # the last renders as [^\x00a]
UNARY = [lambda x: R.star(x), lambda x: R.plus(x), lambda x: R.opt(x), lambda x: R.rep(x, 2, 2)]


def pattern_groups(k, L, action="{ }", prefix="Z", alpha=ALPHA):
    gs = []
    for i, a in enumerate(specgen.asts_upto(k, ATOMS, UNARY)):
        if R.nullable(a):
            continue
        name = "%s%d" % (prefix, i)
        # a second rule gives back-up opportunities around NUL: 'a\0b' vs the pattern
        rules = [H.Rule(a, scs=[name], action=action), H.Rule(R.cat(A, Z, B), scs=[name], action=action)]
        gs.append(H.Group([(name, True)], rules, name, alpha, L, label="nul:" + R.render(a) + " ; a\\x00b"))
    # backing up across a NUL: the longest match ends in (or contains) NUL and a longer attempt fails after it
    sets = [([R.cat(A, Z), R.cat(A, Z, B, B), B], "a\\0 ; a\\0bb ; b"), ([Z, R.cat(Z, A, Z), A], "\\0 ; \\0a\\0 ; a"),
            ([A, R.cat(A, Z, Z, B)], "a ; a\\0\\0b"), ([R.cat(A, B, Z), R.cat(A, B, Z, R.cat(A, A)), A], "ab\\0 ; ab\\0aa ; a"),
            ([R.plus(Z), R.cat(R.plus(Z), A, B)], "\\0+ ; \\0+ab"),
            ([R.plus(('set', frozenset(R.ALL - {0, ord('a')}))), Z, A], "[^\\0a]+ ; \\0 ; a"), ([R.cat(HFF, Z), R.cat(HFF, Z, HFF, Z, A)], "\\xff\\0 ; \\xff\\0\\xff\\0a")]
    for i, (rs, lab) in enumerate(sets):
        name = "%sBK%d" % (prefix, i)
        gs.append(H.Group([(name, True)], [H.Rule(r, scs=[name], action=action) for r in rs], name, alpha, L + 2, label="nul-backup:" + lab))
    return gs


def allbytes_group():
    """One rule per byte value: 256 equivalence classes, NUL's class is number 256."""
    name = "ALLB"
    rules = [H.Rule(R.lit(b), scs=[name]) for b in range(256)]
    extras = [bytes([b]) for b in range(256)] + [bytes([b, 0, 255 - b]) for b in range(0, 256, 5)]
    return H.Group([(name, True)], rules, name, b"\0", 2, extras, label="nul:one rule per byte value")


def shared_class_groups():
    out = []
    for extra in range(0, 10):
        shared = ('set', frozenset([0] + list(range(0x7e, 0x100))))
        rules = [H.Rule(R.plus(shared), scs=["NS"])] + [H.Rule(R.lit(ord("a") + i), scs=["NS"]) for i in range(extra)]
        out.append((extra, H.Group([("NS", True)], rules, "NS", b"\0~a", 3, [b"~~", b"\0~", b"~\0~", b"a~~\0", b"\xff\xff\0", b"~" * 9],
                                   label="nul-shared-class:+%d" % extra)))
    return out


def spelled_class_groups(L):
    """Classes containing NUL in every way the pattern language can write them - escapes, ranges that start at NUL, negation,
    POSIX classes and the set operators {-} {+} (whose results the generator builds itself, with NUL in a different position than
    the bracket parser leaves it) - round-4 seeds C04-r4m1 / C01-r4m1."""
    def S(*xs):
        out = set()
        for x in xs:
            out |= set(x) if not isinstance(x, int) else {x}
        return frozenset(out)
    r = lambda a, b: range(a, b + 1)
    cntrl = S(r(0, 31), 127)
    ent = [
        ("[\\0a]", S(0, 97)), ("[\\x00a]", S(0, 97)), ("[\\000-\\037]", S(r(0, 31))), ("[a\\0]", S(0, 97)), ("[\\0-\\177]", S(r(0, 127))),
        ("[^a]", S(r(0, 255)) - S(97)), ("[^\\0]", S(r(1, 255))), ("[[:cntrl:]]", cntrl), ("[^[:print:]]", S(r(0, 255)) - S(r(32, 126))),
        ("[\\0-\\177]{-}[b-z]", S(r(0, 127)) - S(r(98, 122))), ("[\\0-\\10]{+}[x-z]", S(r(0, 8), r(120, 122))), ("[^a]{-}[b]", S(r(0, 255)) - S(97, 98)),
        ("[a-c]{+}[\\0]", S(0, 97, 98, 99)), ("[\\0]{+}[a-c]", S(0, 97, 98, 99)), ("[[:cntrl:]]{-}[\\n]", cntrl - S(10)),
        ("[\\0-\\xff]{-}[\\0]", S(r(1, 255))), ("[\\0-\\xff]{-}[a-z]{-}[\\x80-\\xff]", S(r(0, 127)) - S(r(97, 122))),
        ("[\\0-\\5]{+}[\\x80-\\x82]{+}[a]", S(r(0, 5), r(128, 130), 97)), ("[\\0-\\10]{+}[x-z]{-}[\\5y]", S(r(0, 8), r(120, 122)) - S(5, 121)),
        ("[a-z]{-}[b-y]{+}[\\0]", S(0, 97, 122)), ("[\\0\\xff]{+}[\\1-\\2]", S(0, 1, 2, 255)), ("[^\\0]{-}[a]", S(r(1, 255)) - S(97)),
    ]
    gs = []
    alpha = bytes([0, 5, 10, 97, 98, 121, 122, 128, 255])
    for i, (text, st) in enumerate(ent):
        name = "SP%d" % i
        a = ('set', st)
        rules = [H.Rule(R.plus(a), scs=[name], text="(%s)+" % text), H.Rule(R.cat(A, Z, B), scs=[name])]
        gs.append(H.Group([(name, True)], rules, name, alpha, L, [bytes([b]) for b in range(256)], label="nul-spelled:(%s)+ ; a\\x00b" % text))
    return gs


TABLES = ["-Cem", "-Cm", "-Ce", "-C", "-Cf", "-Cfe", "-CF", "-CFe"]


def sevenbit_case(args):
    flex_exe, spec, fargs = args
    wd = H.mkscratch("c04s")
    try:
        open(os.path.join(wd, "r.l"), "w").write(spec)
        p = subprocess.run([flex_exe] + fargs + ["-o", "r.c", "r.l"], cwd=wd, env=H.ENV, stdin=subprocess.DEVNULL,
                           stdout=subprocess.PIPE, stderr=subprocess.PIPE, timeout=60)
        return {"rc": p.returncode, "stderr": p.stderr.decode("latin-1")[-500:]}
    finally:
        shutil.rmtree(wd, ignore_errors=True)


def run(tier):
    ck = Check("C04", tier, "model_checking")
    flex = ck.flex()
    quick = tier == "quick"
    k = 1
    L = 3 if quick else 4
    jobs = []

    def J(tag, gs, kn, per=80, **kw):
        for ci, ch in enumerate(specgen.chunks(gs, per)):
            j = dict(groups=ch, knobs=dict(kn), tag="%s-%d" % (tag, ci), driver_args=["-H", "200"])
            j.update(kw)
            jobs.append(j)

    small = {"VF_READ_ONE": 1, "VF_BUFSIZES": "0,1,2,3"}
    for tb in TABLES:
        for mode in ("-I", "-B"):
            if mode == "-I" and tb.startswith(("-Cf", "-CF")):
                continue                      # full/fast tables are always batch (documented)
            for arr in (0, 1):
                if arr and (quick and tb not in ("-Cem", "-Cf", "-CF")):
                    continue
                J("%s%s%s" % (tb, mode, "-array" if arr else ""), pattern_groups(k, L), small, flex_args=[tb, mode, "-8"],
                  options=(["array"] if arr else []), cdefs=(["VF_ARRAY"] if arr else []))
    for api in ("R", "C99"):
        for tb in (("-Cem", "-Cf", "-CFe") if quick else TABLES):
            for arr in (0, 1):
                for mode in ("-I", "-B"):
                    if mode == "-I" and tb.startswith(("-Cf", "-CF")):
                        continue
                    if quick and arr and mode == "-I":
                        continue
                    J("%s-%s%s%s" % (api, tb, mode, "-array" if arr else ""), pattern_groups(k, L), small, api=api,
                      flex_args=[tb, mode, "-8"], options=(["reentrant"] if api == "R" else []) + (["array"] if arr else []),
                      cdefs=(["VF_ARRAY"] if arr else []))
    # whole-input delivery too (NUL in the middle of a full buffer), default buffer
    for tb in TABLES:
        J("whole" + tb, pattern_groups(k, L), {}, flex_args=[tb, "-8"])
    # operations across NULs: yyunput('\0'), yyless over a NUL, yyinput() returning NUL, yymore with NUL in the carried text
    for api in ("NR", "R", "C99"):
        for arr in (0, 1):
            ops = [H.OP_LESS, H.OP_UNPUT, H.OP_INPUT1, H.OP_INPUT2, H.OP_MORE]
            kn = dict(small, VF_OPMASK=H.opmask(*ops), VF_BUDGET_DEFAULT=1, VF_BUDGET_TOTAL=1, VF_UNPUT_CHARS='"\\0a\\377"',
                      VF_BUFSIZES="0,2")
            J("ops-%s%s" % (api, "-array" if arr else ""), pattern_groups(k, L, H.ops_action(ops, api))[::2], kn, api=api,
              options=(["reentrant"] if api == "R" else []) + (["array"] if arr else []), cdefs=(["VF_ARRAY"] if arr else []), per=40)
    # REJECT with NULs
    J("reject", pattern_groups(k, L, H.ops_action([H.OP_REJECT]))[::2],
      {"VF_OPMASK": H.opmask(H.OP_REJECT), "VF_FREE_OP": 1, "VF_BUDGET_OP": 99}, per=40)
    # the backing-up sets each alone in its specification: equivalence classes are global, packing changes which class NUL lands in
    # (and with it whether the full tables get a separate NUL table) - round-2 seed C04-r2m2
    bk = [g for g in pattern_groups(k, L) if g.label.startswith("nul-backup")]
    for tb in TABLES + ["-Cfae", "-Cfa"]:
        for g in bk:
            J("solo-backup%s-%s" % (tb, g.enter), [g], {"VF_BUFSIZES": "0,2"}, per=1, flex_args=[tb, "-8"])
    # NUL sharing its equivalence class with other characters, for every number of further classes 0..9 (a power-of-two number of
    # classes makes the full-table row width equal to the class count) - round-2 seed C02-r2m1
    for tb in ("-Cfe", "-Cfae", "-CFe", "-Cem", "-Ce"):
        for extra, g in shared_class_groups():
            J("nul-shared%s-%d" % (tb, extra), [g], {"VF_BUFSIZES": "0,2"}, per=1, flex_args=[tb, "-8"], driver_args=["-H", "400"])
    # every spelling of a class with NUL in it, packed and alone (alone: without a literal \0 elsewhere NUL's equivalence class is the class's own)
    spg = spelled_class_groups(L)
    for tb in TABLES:
        J("spelled" + tb, spg, {"VF_BUFSIZES": "0,2"}, flex_args=[tb, "-8"])
        if tb in ("-Cem", "-C", "-Cf", "-CFe") or not quick:
            for g in spg:
                solo = H.Group(g.conds, [g.rules[0]], g.enter, g.alphabet, g.maxlen, g.extras, label=g.label.replace(" ; a\\x00b", "") + " (alone)")
                J("spelled-solo%s-%s" % (tb, g.enter), [solo], {"VF_BUFSIZES": "0,2"}, per=1, flex_args=[tb, "-8"])
    # 256 rules, 256 equivalence classes
    for tb in ("-Ce", "-Cem", "-C", "-Cfe", "-CFe", "-Cf"):
        J("allbytes" + tb, [allbytes_group()], {}, per=1, flex_args=[tb, "-8"])
    # 7-bit scanners behave identically on 7-bit input
    a7 = bytes([0, 0x7f, ord('a'), ord('b')])
    at7 = [Z, R.lit(0x7f), A, ('set', frozenset(range(0, 128)) - {ord('a')}), ('set', frozenset(range(0, 128)) - {10}),
           ('set', frozenset(range(0, 9))), ('set', frozenset({0, 32, 9})), ('set', frozenset({0, 0x7f}))]
    a7 = bytes([0, 0x7f, ord('a'), ord('b'), 5, 32])
    g7 = []
    for i, a in enumerate(specgen.asts_upto(1, at7, UNARY)):
        if not R.nullable(a):
            g7.append(H.Group([("S%d" % i, True)], [H.Rule(a, scs=["S%d" % i])], "S%d" % i, a7, L, label="7bit:" + R.render(a, lit_style='hex')))
    for tb in ("-Cem", "-Cf", "-CF", "-C", "-Ce", "-Cfe", "-CFe", "-Cm"):
        J("7bit" + tb, g7, small, flex_args=[tb, "-7"])
    # Equivalence classes are global to a specification: a literal \0 elsewhere in a packed spec isolates NUL's class and can hide
    # a class that mishandles NUL.  Each NUL-containing class therefore also gets a specification of its own.
    for ai, atom in enumerate(at7[3:]):
        solo = []
        for i, a in enumerate(specgen.asts_upto(1, [atom], UNARY)):
            if not R.nullable(a):
                solo.append(H.Group([("Q%d" % i, True)], [H.Rule(a, scs=["Q%d" % i]), H.Rule(R.plus(A), scs=["Q%d" % i])], "Q%d" % i, a7, L,
                                    label="7bit-solo:" + R.render(a, lit_style='hex') + " ; a+"))
        for tb in ("-Cem", "-Ce", "-Cfe", "-CFe", "-Cf"):
            J("7bit-solo%d%s" % (ai, tb), solo, small, flex_args=[tb, "-7"])
            if ai < 3:
                J("8bit-solo%d%s" % (ai, tb), solo, small, flex_args=[tb, "-8"])

    tot = dict(executions=0, tokens=0, choice_points=0, op_effects=0, nontrivial=0, inputs=0, ref_states=0, ref_edges=0, ref_edges_walked=0)
    configs = set()
    for job, res in pmap(H.run_groups_job, jobs, check=ck):
        cfg = job["tag"].rsplit("-", 1)[0]
        if "worker_exception" in res:
            ck.broken.append("worker failed on %s: %s" % (job["tag"], res["worker_exception"]))
            continue
        if "build_failure" in res:
            bf = res["build_failure"]
            if H.harness_own_error(bf):
                ck.broken.append("harness does not compile (%s): %s" % (job["tag"], bf["stderr"][:400]))
            else:
                ck.violation("C04:%s-refused:%s" % (bf["stage"], cfg), "%s failed [%s]: %s" % (bf["stage"], job["tag"], bf["stderr"][-300:]),
                             files={"s.l": bf["spec"]}, case={"stderr": bf["stderr"], "flex_args": job.get("flex_args")})
            continue
        sm = res["summary"]
        if sm is None:
            ck.violation("C04:driver-crash:" + cfg, "harness scanner died (rc=%s): %s" % (res["rc"], (res["hard_error"] or res["stderr"])[-300:]),
                         files={"s.l": res.get("spec", ""), "s_tables.h": res.get("tables", "")}, case={"stderr": res["stderr"]})
            continue
        configs.add(cfg)
        for kk in tot:
            tot[kk] += sm.get(kk, 0)
        for v in res["viols"]:
            ck.violation("C04:%s:%s" % (cfg, v.get("what", v.get("msg", v["viol"]))),
                         "%s [%s]: input %s bufsize %s choices %s: %s (expected rule %s len %s, observed rule %s len %s)" % (
                             v["label"], job["tag"], v.get("input"), v.get("bufsize"), v.get("choices"), v.get("what", v.get("msg")),
                             v.get("exp_rule"), v.get("exp_len"), v.get("obs_rule"), v.get("obs_len")),
                         case={"cmd": v["cmd"], "viol": {kk: v[kk] for kk in v if kk not in ("spec", "tables", "cmd")}},
                         files={"s.l": v["spec"], "s_tables.h": v["tables"]})
        if len(ck.samples) < 10:
            ck.sample({"job": job["tag"], "first": job["groups"][0].label, "executions": sm["executions"]})
    # refusal: patterns needing 8-bit characters in a 7-bit scanner
    refusals = 0
    for pat in ("\\x80", "\\377", "[\\x7f-\\x81]", "[^a]", "\"\\xff\"", "[[:^alpha:]]\\200", "(?i:\\xe9)"):
        for fargs in (["-7"], ["-7", "-Cf"], ["-Cf"], ["-CF"], ["-7", "-Cem"]):
            needs8 = pat not in ("[^a]",)                 # a negated class is cut to the 7-bit range, not an error
            r = sevenbit_case((flex.exe, "%%option noyywrap\n%%%%\n%s  { }\n%%%%\n" % pat, fargs))
            refusals += 1
            if needs8 and r["rc"] == 0:
                ck.violation("C04:7bit-not-refused:%s:%s" % (" ".join(fargs), pat),
                             "flex %s accepted the 8-bit pattern %s in a 7-bit scanner" % (" ".join(fargs), pat), case=r)
            elif needs8 and not r["stderr"].strip():
                ck.violation("C04:7bit-refused-silently:%s:%s" % (" ".join(fargs), pat), "refused without a diagnostic", case=r)
            elif not needs8 and r["rc"] != 0:
                ck.violation("C04:7bit-refused-7bit-pattern:%s:%s" % (" ".join(fargs), pat), "flex refused a pattern that needs no 8-bit character: " + r["stderr"], case=r)
    ck.cov.update(states=tot["ref_states"], transitions=tot["ref_edges_walked"], reference_edges_total=tot["ref_edges"],
                  traces_validated_against_impl=tot["executions"], evaluations=tot["executions"], distinct_nontrivial=tot["nontrivial"],
                  configurations=len(configs), refusal_cases=refusals, tokens_compared=tot["tokens"],
                  rule="every pattern of <= 1 operator over atoms {\\0,\\x80,\\xff,a,[^a],.,[\\0-\\x7f],[\\0\\xff],[\\x80-\\xff]} (with the competitor "
                       "a\\0b) x every input over {\\0,\\x80,\\xff,a,b} up to length L, one byte per read with buffers of 1-3 bytes and whole, "
                       "in every table representation x -I/-B x %pointer/%array x non-reentrant/reentrant/c99, plus one-operation histories "
                       "(yyunput/yyless/yyinput/yymore) and reject; 256-rule spec; 7-bit scanners on 7-bit input; refusal of 8-bit patterns under -7")
    ck.assumptions += ["-Cf/-CF without -8 are 7-bit by default (documented); the lattice passes -8 explicitly",
                       "full/fast tables are batch by definition, so -I is not combined with them"]
    ck.guard(tot["executions"] > 100000, "too few executions: %d" % tot["executions"])
    ck.guard(len(configs) >= 30, "too few configurations: %d" % len(configs))
    return ck.finish()
