"""C16 - flex is robust on arbitrary input files and honest about its exit status
(DESIGN.md section 2, C16).  Sanitized flex; bounded-exhaustive small files, single-point
mutants of seed specifications, limit specifications, and a write fault at every write() of
every output file (strace syscall fault injection)."""
import hashlib, itertools, os, re, shutil, subprocess, resource
from .. import harness as H, build
from ..check import Check, pmap

SAN_ENV = {"ASAN_OPTIONS": "detect_leaks=0:abort_on_error=0:exitcode=86", "UBSAN_OPTIONS": "halt_on_error=1:exitcode=87:print_stacktrace=1"}

SEEDS = {
    "basic": """%option noyywrap
%{
#include <stdio.h>
static int n;
%}
DIGIT [0-9]
ID    [a-z][a-z0-9]*
%x STR
%s EXT
%%
{DIGIT}+        { n++; }
{DIGIT}+"."{DIGIT}*   { n += 2; }
if|then|else    { return 1; }
{ID}            |
"+"|"-"         { n--; }
\\"              { yybegin(STR); }
<STR>[^"\\n]*    { yymore(); }
<STR>\\"         { yybegin(INITIAL); }
<EXT>^abc/def$  ;
<*>[ \\t\\n]+      /* skip */
<<EOF>>         { return 0; }
%%
int main(void) { return yylex(); }
""",
    "classes": """%option noyywrap 8bit
%%
[[:alpha:]_][[:alnum:]_]*   return 1;
[^[:space:]]{-}[a-z]{+}[q]  return 2;
(?i:select|from)            return 3;
(?s:.)                      return 4;
(?x: a b # comment
   c )                      return 5;
a{2,5}b{3}c{4,}             return 6;
"quoted\\"str"               return 7;
\\x41\\101\\0                  return 8;
%%
""",
    "options": """%option reentrant bison-bridge stack yylineno
%option prefix="zz"
%option extra-type="struct ctx *"
%top{
struct ctx { int depth; };
}
%{
#define YYSTYPE int
%}
%x C1 C2
%%
<INITIAL>{
  "("   { yy_push_state(C1, yyscanner); }
  .|\\n  { *yylval = yytext[0]; return 1; }
}
<C1,C2>")"  { yy_pop_state(yyscanner); }
<C1>.|\\n    ;
%%
""",
    "tabular": """%option noyywrap nodefault
%array
%%
^#.*$      { yyless(1); }
a/b        { yyunput('x'); }
abc|abd    { yyreject(); }
[a-d]+     ;
.|\\n       ;
%%
""",
}

HOSTILE = [b"\0", b"\n", b"\\", b"\"", b"%", b"{", b"}", b"[", b"]", b"(", b")", b"/", b"*", b"<", b">", b"\xff", b"|"]


def run_flex(exe, wd, args, stdin=None, timeout=30, extra_env=None, prefix=None):
    env = dict(H.ENV)
    env.update(SAN_ENV)
    if extra_env:
        env.update(extra_env)
    cmd = (prefix or []) + [exe] + args
    try:
        p = subprocess.run(cmd, cwd=wd, env=env, stdin=subprocess.DEVNULL, stdout=subprocess.PIPE, stderr=subprocess.PIPE, timeout=timeout)
        return p.returncode, p.stderr.decode("latin-1"), False
    except subprocess.TimeoutExpired:
        return None, "", True


def judge(rc, err, hung, wd, outs, need_compile=False):
    """Returns a list of (kind, text) problems for one flex run."""
    probs = []
    if hung:
        return [("hang", "flex did not terminate")]
    if rc is not None and rc < 0:
        probs.append(("signal", "flex died from signal %d: %s" % (-rc, err[-300:])))
    if "ERROR: AddressSanitizer" in err or "runtime error:" in err or rc in (86, 87):
        first = [l for l in err.splitlines() if "ERROR: AddressSanitizer" in l or "runtime error:" in l][:1]
        probs.append(("sanitizer", (first or [err[-300:]])[0][:300]))
    if rc == 0:
        for o in outs:
            p = os.path.join(wd, o)
            if not os.path.exists(p) or os.path.getsize(p) == 0:
                probs.append(("missing-output", "exit status 0 but %s is missing or empty" % o))
        sc = os.path.join(wd, outs[0]) if outs else None
        if sc and os.path.exists(sc) and os.path.getsize(sc) > 0:
            data = open(sc, "rb").read()
            if b"yy_flex_debug" not in data and b"yylex" not in data:
                probs.append(("incomplete-output", "exit status 0 but %s does not contain a scanner" % outs[0]))
            if b"int yylex_destroy" not in data and b"yyFlexLexer::~yyFlexLexer" not in data and b"yylex_destroy" not in data:
                probs.append(("incomplete-output", "exit status 0 but %s stops before the end of the skeleton" % outs[0]))
    elif rc is not None and rc > 0 and rc not in (86, 87):
        if not err.strip():
            probs.append(("silent-failure", "exit status %d without any diagnostic" % rc))
    return probs


def small_files_job(args):
    """All files over an alphabet for a range of an enumeration index."""
    kind, alphabet, maxlen, lo, hi = args
    flex = build.get_flex("asan")
    wd = H.mkscratch("c16a")
    res = {"runs": 0, "ok": 0, "rejected": 0, "problems": [], "distinct": 0}
    seen_out = {}
    try:
        idx = 0
        for n in range(0, maxlen + 1):
            for tup in itertools.product(alphabet, repeat=n):
                if idx < lo or idx >= hi:
                    idx += 1
                    continue
                idx += 1
                body = b"".join(tup)
                data = body if kind == "file" else b"%%\n" + body + b"\n"
                open(os.path.join(wd, "in.l"), "wb").write(data)
                for f in ("o.c",):
                    try:
                        os.unlink(os.path.join(wd, f))
                    except OSError:
                        pass
                rc, err, hung = run_flex(flex.exe, wd, ["-o", "o.c", "in.l"], timeout=20)
                if hung:
                    rc, err, hung = run_flex(flex.exe, wd, ["-o", "o.c", "in.l"], timeout=200)
                res["runs"] += 1
                probs = judge(rc, err, hung, wd, ["o.c"])
                if rc == 0:
                    res["ok"] += 1
                    h = hashlib.md5(open(os.path.join(wd, "o.c"), "rb").read()).hexdigest() if os.path.exists(os.path.join(wd, "o.c")) else None
                    if h and h not in seen_out:
                        seen_out[h] = data
                        # the rules carry no user code, so a complete scanner must be valid C
                        p = subprocess.run(["gcc", "-fsyntax-only", "-w", "-x", "c", "o.c"], cwd=wd, stdout=subprocess.PIPE, stderr=subprocess.PIPE)
                        indented = any(l[:1] in (b" ", b"\t") for l in data.split(b"\n"))     # indented lines are user code
                        # text after the first blank of a rule line is its action, i.e. user code as well (a thorough run reported
                        # "] a" as a scanner that does not compile: the action "a" is the user's)
                        has_action = any((b" " in l.strip() or b"\t" in l.strip()) for l in data.split(b"\n"))
                        if p.returncode != 0 and not indented and not has_action and not any(c in data for c in (b"{", b"}")):
                            probs.append(("does-not-compile", "exit status 0 but the scanner does not compile: " + p.stderr.decode("latin-1")[:300]))
                elif rc and rc > 0:
                    res["rejected"] += 1
                for kind_, text in probs:
                    if len(res["problems"]) < 6:
                        res["problems"].append((kind_, text, data))
        res["distinct"] = len(seen_out)
        return res
    finally:
        shutil.rmtree(wd, ignore_errors=True)


def mutant_job(args):
    name, seed, variants = args          # variants: list of bytes
    flex = build.get_flex("asan")
    wd = H.mkscratch("c16b")
    res = {"runs": 0, "ok": 0, "rejected": 0, "problems": [], "seed": name}
    try:
        for data in variants:
            open(os.path.join(wd, "in.l"), "wb").write(data)
            for f in os.listdir(wd):
                if f != "in.l":
                    try:
                        os.unlink(os.path.join(wd, f))
                    except OSError:
                        pass
            rc, err, hung = run_flex(flex.exe, wd, ["-o", "o.c", "in.l"], timeout=20)
            if hung:
                rc, err, hung = run_flex(flex.exe, wd, ["-o", "o.c", "in.l"], timeout=200)
            res["runs"] += 1
            outs = ["o.c"]
            probs = judge(rc, err, hung, wd, outs)
            if rc == 0:
                res["ok"] += 1
            elif rc and rc > 0:
                res["rejected"] += 1
            for kind_, text in probs:
                if len(res["problems"]) < 6:
                    res["problems"].append((kind_, text, data))
        return res
    finally:
        shutil.rmtree(wd, ignore_errors=True)


def limit_specs():
    """(name, bytes, flex args, expectation) - expectation 'ok', 'refuse' or 'any'."""
    out = []
    for n, exp in ((8189, "ok"), (8190, "ok"), (8191, "any"), (8192, "refuse"), (8193, "refuse"), (8200, "refuse")):
        body = "".join("r%dx ;\n" % i for i in range(n))
        out.append(("rules-%d" % n, ("%option noyywrap\n%%\n" + body + "%%\n").encode(), ["-Ca"], exp))
    for n in (2040, 2047, 2048, 2049, 4000):
        out.append(("name-%d" % n, ("%%option noyywrap\n%s [a-z]\n%%%%\n{%s} ;\n%%%%\n" % ("N" * n, "N" * n)).encode(), [], "any"))
        out.append(("deftext-%d" % n, ("%%option noyywrap\nD %s\n%%%%\n{D} ;\n%%%%\n" % ("a" * n)).encode(), [], "any"))
        out.append(("line-%d" % n, ("%%option noyywrap\n%%%%\n%s ;\n%%%%\n" % ("a" * n)).encode(), [], "any"))
        out.append(("scname-%d" % n, ("%%option noyywrap\n%%x %s\n%%%%\n<%s>a ;\n%%%%\n" % ("S" * n, "S" * n)).encode(), [], "any"))
    for n in (100, 10000):
        out.append(("parens-%d" % n, ("%%option noyywrap\n%%%%\n%sa%s ;\n%%%%\n" % ("(" * n, ")" * n)).encode(), [], "any"))
    for n in (40, 300, 1000):
        out.append(("conds-%d" % n, ("%option noyywrap\n" + "".join("%%x S%d\n" % i for i in range(n)) + "%%\n" +
                                     "".join("<S%d>a ;\n" % i for i in range(n)) + "%%\n").encode(), [], "ok"))
    for reps in ((200, 100), (400, 80), (2000, 20)):
        out.append(("nfa-%dx%d" % reps, ("%%option noyywrap\n%%%%\n(abcdefgh){%d,%d} ;\n%%%%\n" % (reps[1], reps[0])).encode(), [], "any"))
    for n in (99, 100, 101, 150, 400, 2000):
        # -b: the backing-up report lists the rules associated with a non-accepting state; here n rules share one
        out.append(("backup-%d" % n, ("%option noyywrap\n%%\n" + "".join("k%04dx ;\n" % i for i in range(n)) + "%%\n").encode(), ["-b"], "ok"))
    # a single token of user code longer than the generator's buffers (they grow by doubling): string literal, comment, plain code,
    # in an action, in a %{ %} block of section 1, in %top and in section 3
    for n in (2049, 4097, 8193, 20000, 70000, 300000, 700000):
        long_str = '"' + "x" * n + '"'
        out.append(("action-string-%d" % n, ("%%option noyywrap\n%%%%\na { const char *s = %s; (void)s; }\n%%%%\n" % long_str).encode(), [], "ok"))
        out.append(("action-comment-%d" % n, ("%%option noyywrap\n%%%%\na { /* %s */ }\n%%%%\n" % ("y" * n)).encode(), [], "ok"))
        out.append(("action-ident-%d" % n, ("%%option noyywrap\n%%%%\na { int %s = 0; (void)%s; }\n%%%%\n" % ("v" * n, "v" * n)).encode(), [], "ok"))
        out.append(("block-string-%d" % n, ("%%option noyywrap\n%%{\nstatic const char vf_long[] = %s;\n%%}\n%%%%\na ;\n%%%%\n" % long_str).encode(), [], "ok"))
        out.append(("top-string-%d" % n, ("%%top{\nstatic const char vf_long[] = %s;\n}\n%%option noyywrap\n%%%%\na ;\n%%%%\n" % long_str).encode(), [], "ok"))
        out.append(("sect3-string-%d" % n, ("%%option noyywrap\n%%%%\na ;\n%%%%\nstatic const char vf_long[] = %s;\n" % long_str).encode(), [], "ok"))
    out.append(("ccl-many", ("%option noyywrap\n%%\n" + "".join("[%c-%c%c]x%d ;\n" % (97 + i % 20, 98 + i % 20, 65 + i % 26, i) for i in range(700)) + "%%\n").encode(), [], "ok"))
    return out


def limit_job(args):
    name, data, fargs, exp = args
    flex = build.get_flex("asan")
    wd = H.mkscratch("c16c")
    try:
        open(os.path.join(wd, "in.l"), "wb").write(data)
        rc, err, hung = run_flex(flex.exe, wd, list(fargs) + ["-o", "o.c", "in.l"], timeout=300)
        probs = judge(rc, err, hung, wd, ["o.c"])
        if exp == "refuse" and rc == 0:
            probs.append(("limit-not-reported", "flex accepted a specification beyond a documented limit (%s) with exit status 0" % name))
        if exp == "ok" and rc != 0 and not hung:
            probs.append(("refused-valid", "flex refused a valid specification (%s): %s" % (name, err[-200:])))
        if rc == 0 and exp in ("ok", "any") and not probs:
            p = subprocess.run(["gcc", "-fsyntax-only", "-w", "-x", "c", "o.c"], cwd=wd, stdout=subprocess.PIPE, stderr=subprocess.PIPE)
            if p.returncode != 0:
                probs.append(("does-not-compile", "exit status 0 but the scanner does not compile: " + p.stderr.decode("latin-1")[:300]))
        return {"name": name, "rc": rc, "problems": probs, "stderr": err[-300:]}
    finally:
        shutil.rmtree(wd, ignore_errors=True)


SIMPLE = b"%option noyywrap\n%%\n[a-z]+ { return 1; }\n.|\\n ;\n%%\nint main(void){return yylex();}\n"


def write_fault_job(args):
    """Fail every write() on one output path in turn (strace fault injection), and the /dev/full variants."""
    which, fargs, outname = args
    flex = build.get_flex("plain")
    wd = H.mkscratch("c16d")
    res = {"which": which, "runs": 0, "problems": [], "writes": 0, "strace": True}
    try:
        open(os.path.join(wd, "in.l"), "wb").write(SIMPLE * 1 + b"")
        # /dev/full: every write fails
        a = [x.replace("OUT", "/dev/full") for x in fargs]
        rc, err, hung = run_flex(flex.exe, wd, a + ["in.l"], timeout=60)
        res["runs"] += 1
        if rc == 0:
            res["problems"].append(("devfull", "%s directed to /dev/full: exit status 0 although nothing could be written (%s)" % (which, err.strip()[:150])))
        elif rc and rc > 0 and not err.strip():
            res["problems"].append(("devfull-silent", "%s directed to /dev/full: exit status %d without a diagnostic" % (which, rc)))
        # count the writes on the path
        path = os.path.join(wd, outname)
        a = [x.replace("OUT", outname) for x in fargs]
        open(path, "wb").close()
        tr = os.path.join(wd, "trace.txt")
        rc, err, hung = run_flex(flex.exe, wd, a + ["in.l"], timeout=60, prefix=["strace", "-f", "-qq", "-o", tr, "-e", "trace=write", "-P", path])
        if rc != 0 or not os.path.exists(tr):
            res["strace"] = False
            res["note"] = "strace unavailable or flex failed under it (rc=%s): %s" % (rc, err[-200:])
            return res
        nw = sum(1 for l in open(tr, errors="replace") if "write(" in l)
        res["writes"] = nw
        for k in range(1, nw + 1):
            open(path, "wb").close()
            rc, err, hung = run_flex(flex.exe, wd, a + ["in.l"], timeout=60,
                                     prefix=["strace", "-f", "-qq", "-o", "/dev/null", "-e", "trace=write", "-e", "inject=write:error=ENOSPC:when=%d" % k, "-P", path])
            res["runs"] += 1
            err2 = "\n".join(l for l in err.splitlines() if not l.startswith("strace:"))
            if rc == 0:
                res["problems"].append(("write-fault", "write #%d of %d on the %s failed with ENOSPC but flex exited 0 (file holds %d bytes)" % (
                    k, nw, which, os.path.getsize(path))))
            elif rc and rc > 0 and not err2.strip():
                res["problems"].append(("write-fault-silent", "write #%d on the %s failed: exit status %d without a diagnostic" % (k, which, rc)))
        return res
    finally:
        shutil.rmtree(wd, ignore_errors=True)


def cli_shapes():
    """Every entry of the command-line table (src/options.c) in every argument shape: flag alone, argument attached, argument as the next
    word, argument missing as the last word of the command line (the specification then comes from standard input)."""
    import re as _re
    src = open("/repo/src/options.c", errors="replace").read()
    shapes = []
    vals = {"FILE": "out_x", "PREFIX": "zz", "LANG": "c99", "NUM": "1", "macro": "FOO", "NAME": "Cls", "SIZE": "100", "STRING": "int"}
    for m in _re.finditer(r'\{\s*"(-[^"]+)"\s*,\s*(OPT_\w+)', src):
        spec, opt = m.group(1), m.group(2)
        if opt in ("OPT_HELP", "OPT_VERSION"):
            shapes.append(([spec.split()[0].split("=")[0].split("[")[0]], "info", spec))
            continue
        okk = "any" if opt in ("OPT_SKEL", "OPT_YYCLASS") else "ok"     # a skeleton file that does not exist / yyclass without C++ are refused, with a message
        mm = _re.match(r"^(--[\w+-]+)=(\w+)$", spec)
        if mm:                                    # --long=ARG (required)
            v = vals.get(mm.group(2), "x1")
            shapes += [([mm.group(1) + "=" + v], okk, spec), ([mm.group(1), v], "ok-or-refused", spec), ([mm.group(1)], "missing", spec), ([mm.group(1) + "="], "any", spec)]
            continue
        mm = _re.match(r"^(--[\w+-]+)\[=(\w+)\]$", spec)
        if mm:                                    # --long[=ARG] (optional)
            shapes += [([mm.group(1)], "ok", spec), ([mm.group(1) + "=" + vals.get(mm.group(2), "x1")], "ok", spec)]
            continue
        mm = _re.match(r"^(-\w) (\w+)$", spec)
        if mm:                                    # -x ARG (required)
            v = vals.get(mm.group(2), "x1")
            shapes += [([mm.group(1), v], okk, spec), ([mm.group(1) + v], okk, spec), ([mm.group(1)], "missing", spec)]
            continue
        mm = _re.match(r"^(-\w)(macro)$", spec)
        if mm:
            shapes += [([mm.group(1) + "FOO"], "ok", spec), ([mm.group(1) + "FOO=1"], "ok", spec), ([mm.group(1)], "any", spec)]
            continue
        mm = _re.match(r"^(-C)\[(\w+)\]$", spec)
        if mm:
            shapes += [(["-C"], "ok", spec)] + [(["-C" + c], "any", spec) for c in mm.group(2)] + [(["-Cz"], "refused", spec)]
            continue
        shapes.append(([spec], "any", spec))
    shapes += [(["--no-such-option"], "refused", "unknown"), (["-Z"], "refused", "unknown"), (["--"], "ok", "--"), (["--re"], "refused", "ambiguous prefix"),
               (["--outf=out_x"], "ok", "unique prefix"), (["-o"], "missing", "-o FILE"), (["-o", ""], "any", "empty argument")]
    return shapes


def cli_job(batch):
    flex = build.get_flex("asan")
    wd = H.mkscratch("c16c")
    res = {"runs": 0, "problems": [], "ok": 0, "refused": 0}
    env = dict(H.ENV)
    env.update(SAN_ENV)
    try:
        for argv, expect, spec in batch:
            for f in os.listdir(wd):
                try:
                    os.unlink(os.path.join(wd, f))
                except OSError:
                    pass
            try:
                argv = list(argv)
                p = subprocess.run([flex.exe] + argv, cwd=wd, env=env, input=SIMPLE, stdout=subprocess.PIPE, stderr=subprocess.PIPE, timeout=60)
                rc, err, out = p.returncode, p.stderr.decode("latin-1"), p.stdout
            except subprocess.TimeoutExpired:
                res["problems"].append(("hang", "flex %s with the specification on standard input did not terminate" % " ".join(argv), argv))
                continue
            res["runs"] += 1
            what = "flex %s (specification on standard input; table entry \"%s\")" % (" ".join(repr(a) if not a else a for a in argv), spec)
            if rc < 0:
                res["problems"].append(("signal", "%s died from signal %d" % (what, -rc), argv))
                continue
            if "ERROR: AddressSanitizer" in err or "runtime error:" in err:
                res["problems"].append(("sanitizer", "%s: %s" % (what, [l for l in err.splitlines() if "Sanitizer" in l or "runtime error" in l][0][:200]), argv))
                continue
            if rc != 0 and not err.strip():
                res["problems"].append(("silent-failure", "%s: exit status %d without a diagnostic" % (what, rc), argv))
            if expect == "missing" and rc == 0:
                res["problems"].append(("missing-argument-accepted", "%s: the required argument is missing, flex exited 0 (the option was dropped silently)" % what, argv))
            if expect == "refused" and rc == 0:
                res["problems"].append(("not-refused", "%s: exit status 0" % what, argv))
            if expect == "ok" and rc != 0:
                res["problems"].append(("refused", "%s: exit status %d: %s" % (what, rc, err.strip()[-150:]), argv))
            if rc == 0 and expect != "info":
                res["ok"] += 1
                files = [f for f in os.listdir(wd) if f.startswith("lex.") and not f.endswith(".backup") and not f.endswith(".tables")] + [f for f in os.listdir(wd) if f == "out_x"]
                data = out if b"yylex" in out else b"".join(open(os.path.join(wd, f), "rb").read() for f in files)
                if b"yylex" not in data:
                    res["problems"].append(("missing-output", "%s: exit status 0 but no scanner was written (files: %s)" % (what, sorted(os.listdir(wd))), argv))
            elif rc != 0:
                res["refused"] += 1
        return res
    finally:
        shutil.rmtree(wd, ignore_errors=True)


def child_fault_job(args):
    """A process of flex's filter chain fails: m4 missing, m4 exiting non-zero, m4 killed by a signal after reading its
    input, the writer killed by SIGXFSZ at a file-size limit."""
    kind = args
    flex = build.get_flex("plain")
    wd = H.mkscratch("c16e")
    try:
        open(os.path.join(wd, "in.l"), "wb").write(SIMPLE)
        env, pre = {}, None
        if kind == "m4-missing":
            env["M4"] = "/nonexistent/m4"
        elif kind in ("m4-exit3", "m4-killed", "m4-killed-early"):
            sh = os.path.join(wd, "fakem4.sh")
            body = {"m4-exit3": "#!/bin/sh\ncat >/dev/null\nexit 3\n", "m4-killed": "#!/bin/sh\ncat >/dev/null\nkill -9 $$\n",
                    "m4-killed-early": "#!/bin/sh\nkill -11 $$\n"}[kind]
            open(sh, "w").write(body)
            os.chmod(sh, 0o755)
            env["M4"] = sh
        e = dict(H.ENV)
        e.update(env)
        def lim():
            if kind.startswith("fsize"):
                n = int(kind.split("-")[1])
                resource.setrlimit(resource.RLIMIT_FSIZE, (n, n))
        try:
            p = subprocess.run([flex.exe, "-o", "o.c", "in.l"], cwd=wd, env=e, stdin=subprocess.DEVNULL, stdout=subprocess.PIPE, stderr=subprocess.PIPE,
                               timeout=60, preexec_fn=lim)
            rc, err = p.returncode, p.stderr.decode("latin-1")
        except subprocess.TimeoutExpired:
            return {"kind": kind, "problem": "flex hangs when %s" % kind}
        size = os.path.getsize(os.path.join(wd, "o.c")) if os.path.exists(os.path.join(wd, "o.c")) else -1
        if rc == 0:
            return {"kind": kind, "problem": "exit status 0 although a process of the filter chain failed (%s); o.c holds %d bytes; stderr: %s" % (kind, size, err[-150:])}
        return {"kind": kind, "problem": None, "rc": rc}
    finally:
        shutil.rmtree(wd, ignore_errors=True)


def run(tier):
    ck = Check("C16", tier, "exploration")
    ck.flex("asan")
    ck.flex("plain")
    quick = tier == "quick"
    runs = ok = rejected = distinct = 0

    def absorb(res, tag):
        nonlocal runs, ok, rejected, distinct
        runs += res.get("runs", 0); ok += res.get("ok", 0); rejected += res.get("rejected", 0); distinct += res.get("distinct", 0)
        for kind, text, data in res.get("problems", []):
            ck.violation("C16:%s:%s:%s" % (kind, tag, hashlib.md5(data).hexdigest()[:8]), "%s: input %r: %s" % (tag, data[:80], text), files={"in.l": data})

    # (a) every small file, every small one-line rule
    syn = [b"%", b"\n", b"{", b"}", b"a", b" ", b"<", b">", b"\"", b"[", b"|", b"*"]
    meta = [b"a", b"[", b"]", b"(", b")", b"{", b"}", b"*", b"+", b"?", b"|", b"/", b"^", b"$", b"\"", b"\\", b".", b"-", b"<", b">", b"1", b",", b":", b" "]
    la = 3 if quick else 4
    lb = 2 if quick else 3
    na = sum(len(syn) ** n for n in range(la + 1))
    nb = sum(len(meta) ** n for n in range(lb + 1))
    jobs = []
    step = 200
    for lo in range(0, na, step):
        jobs.append(("file", syn, la, lo, lo + step))
    for lo in range(0, nb, step):
        jobs.append(("rule", meta, lb, lo, lo + step))
    for j, res in pmap(small_files_job, jobs, check=ck):
        if "worker_exception" in res:
            ck.broken.append("worker failed: %s" % res["worker_exception"])
            continue
        absorb(res, "small-" + j[0])
    ck.sample({"family": "small files", "files": na, "one_line_rules": nb})
    # (b) single-point mutants of the seed specifications
    mjobs = []
    for name, seed in SEEDS.items():
        sb = seed.encode()
        variants = [sb]
        variants += [sb[:i] for i in range(0, len(sb), 1 if not quick else 3)]
        variants += [sb[:i] + sb[i + 1:] for i in range(0, len(sb), 1 if not quick else 2)]
        hs = HOSTILE if not quick else HOSTILE[:6]
        for i in range(0, len(sb), 1 if not quick else 3):
            for hbyte in hs:
                if sb[i:i + 1] != hbyte:
                    variants.append(sb[:i] + hbyte + sb[i + 1:])
        for k in range(0, len(variants), 150):
            mjobs.append((name, None, variants[k:k + 150]))
    for j, res in pmap(mutant_job, mjobs, check=ck):
        if "worker_exception" in res:
            ck.broken.append("worker failed: %s" % res["worker_exception"])
            continue
        absorb(res, "mutant-" + j[0])
    ck.sample({"family": "seed mutants", "seeds": sorted(SEEDS), "variants": sum(len(j[2]) for j in mjobs)})
    # (c) internal limits
    nlim = 0
    for j, res in pmap(limit_job, limit_specs(), check=ck):
        if "worker_exception" in res:
            ck.broken.append("worker failed: %s" % res["worker_exception"])
            continue
        nlim += 1
        runs += 1
        for kind, text in res["problems"]:
            ck.violation("C16:%s:%s" % (kind, res["name"]), "limit specification %s: %s" % (res["name"], text), files={"in.l": j[1][:20000]})
    # (d) write faults on every output file
    wjobs = [("scanner", ["-o", "OUT"], "o.c"), ("header file", ["-o", "s.c", "--header-file=OUT"], "o.h"),
             ("tables file", ["-o", "s.c", "--tables-file=OUT"], "o.tables"), ("backup file", ["-o", "s.c", "--backup-file=OUT"], "o.backup"),
             ("scanner (stdout)", ["-t"], "none")]
    nwf = 0
    strace_ok = True
    for j, res in pmap(write_fault_job, wjobs[:4], check=ck):
        if "worker_exception" in res:
            ck.broken.append("worker failed: %s" % res["worker_exception"])
            continue
        runs += res["runs"]
        nwf += res["writes"]
        if not res["strace"]:
            strace_ok = False
            ck.notes.append(res.get("note", "strace not usable"))
        for kind, text in res["problems"]:
            ck.violation("C16:%s:%s" % (kind, res["which"]), text, case={"args": j[1]})
    # (f) the command-line table in every argument shape, specification on standard input
    shapes = cli_shapes()
    ncli = 0
    for j, res in pmap(cli_job, [shapes[i::16] for i in range(16)], check=ck):
        if "worker_exception" in res:
            ck.broken.append("worker failed: %s" % res["worker_exception"])
            continue
        runs += res["runs"]
        ncli += res["runs"]
        for kind, text, argv in res["problems"]:
            ck.violation("C16:cli:%s:%s" % (kind, " ".join(argv)), text, case={"argv": argv},
                         replay={"module": "vflib.checks.c16", "func": "cli_job", "args": [[argv, "any" if kind in ("signal", "sanitizer", "silent-failure", "hang") else
                                                                                           {"missing-argument-accepted": "missing", "not-refused": "refused", "refused": "ok"}.get(kind, "ok"), "replay"]]})
    ck.cov["command_line_shapes"] = ncli
    ck.guard(ncli > 150, "command-line table hardly exercised: %d" % ncli)
    cf = ["m4-missing", "m4-exit3", "m4-killed", "m4-killed-early"] + ["fsize-%d" % n for n in (1, 100, 4096, 8192, 20000, 40000)]
    for j, res in pmap(child_fault_job, cf, check=ck):
        if "worker_exception" in res:
            ck.broken.append("worker failed: %s" % res["worker_exception"])
            continue
        runs += 1
        ck.add("child_faults")
        if res["problem"]:
            ck.violation("C16:child-fault:" + res["kind"].split("-")[0] + "-" + res["kind"].split("-")[1].rstrip("0123456789"), res["problem"])
    if not strace_ok:
        ck.exhaustive = False
    ck.cov.update(evaluations=runs, distinct_nontrivial=ok + distinct, accepted=ok, refused_with_diagnostic=rejected, limit_specs=nlim, write_faults_injected=nwf,
                  rule="(a) every file of length <= %d over 12 syntax bytes and every one-line rule of length <= %d over 24 pattern metacharacters; "
                       "(b) every truncation, single-byte deletion and substitution by hostile bytes of 4 seed specifications that together use "
                       "every construct; (c) specifications at and beyond internal limits; (d) /dev/full and an ENOSPC at every write() of the "
                       "scanner, header and tables file.  Each run of the sanitized flex must terminate without signal or sanitizer report, exit 0 "
                       "only with complete outputs (distinct scanners of (a) are compiled), and otherwise print a diagnostic; distinct_nontrivial "
                       "= runs accepted by flex plus distinct scanners compiled" % (la, lb))
    ck.assumptions += ["a specification whose user code is damaged by a mutation may yield a scanner that does not compile: only the scanners of family (a), "
                       "which carry no user code, are compiled", "strace -e inject needs ptrace; if unavailable the write-fault family is reported as not run"]
    ck.guard(runs > 3000, "too few runs: %d" % runs)
    return ck.finish()
