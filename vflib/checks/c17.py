"""C17 - 'rule cannot be matched' and default-rule warnings are exact
(DESIGN.md section 2, C17): reachability of priority accepts in the reference DFA."""
import itertools, os, re, shutil
from .. import regex as R, refsem, harness as H, specgen, build
from ..check import Check, pmap

A, B, NL = R.lit('a'), R.lit('b'), R.lit(10)
AB = R.cset(b'ab')
DOT = ('set', R.DOT)
ANY = ('set', R.ALL)


def pool():
    """(label, Rule kwargs) patterns prone to shadow each other."""
    lower = ('set', frozenset(range(97, 123)))
    alnum = ('set', frozenset(list(range(97, 123)) + list(range(48, 58))))
    P = [
        ("a", dict(head=A)), ("b", dict(head=B)), ("ab", dict(head=R.cat(A, B))), ("a+", dict(head=R.plus(A))), ("[ab]", dict(head=AB)),
        ("[ab]+", dict(head=R.plus(AB))), ("a|b", dict(head=R.alt(A, B))), ("ab?", dict(head=R.cat(A, R.opt(B)))), ("ab*", dict(head=R.cat(A, R.star(B)))),
        ("a(b|bb)*", dict(head=R.cat(A, R.star(R.alt(B, R.cat(B, B)))))), (".", dict(head=DOT)), (".|\\n", dict(head=ANY)), ("\\n", dict(head=NL)),
        ("^a", dict(head=A, bol=True)), ("^ab", dict(head=R.cat(A, B), bol=True)), ("a$", dict(head=A, eol=True)), ("a/b", dict(head=A, trail=B)),
        ("a/\\n", dict(head=A, trail=NL)), ("[a-z][a-z0-9]*", dict(head=R.cat(lower, R.star(alnum)))), ("if", dict(head=R.string("if"))),
        ("0[0-7]*", dict(head=R.cat(R.lit('0'), R.star(('set', frozenset(range(48, 56))))))), ("0", dict(head=R.lit('0'))),
        ("a{2}", dict(head=R.rep(A, 2, 2))), ("aa", dict(head=R.cat(A, A))), ("a{1,2}", dict(head=R.rep(A, 1, 2))), ("[^a]", dict(head=('set', frozenset(R.ALL - {97})))),
        ("ba", dict(head=R.cat(B, A))), ("b+a?", dict(head=R.cat(R.plus(B), R.opt(A)))),
        # fixed head, variable trail: still an ordinary (non-REJECT) rule, whatever the rule before it looked like (round-7 seed C17-r7m3)
        ("a/b+", dict(head=A, trail=R.plus(B))),
    ]
    return P


def useful_rules(pack, gi, group, all_accepts=False):
    """Rules of the group that are the priority accept of a state reachable (by a non-empty string) from one of its start states."""
    _, _, dfas, part, start = H.emit_tables(pack, {})
    sc = pack.scindex[group.enter]
    useful = set()
    for bol in (0, 1):
        d = dfas[start[sc][bol]]
        seen = set()
        work = []
        for t in d.trans[0]:
            if t >= 0 and t not in seen:
                seen.add(t); work.append(t)
        while work:
            q = work.pop()
            if d.acc[q]:
                if all_accepts:          # with REJECT every rule of the accepting set can be reached
                    useful.update(d.acc[q])
                else:
                    useful.add(d.acc[q][0])
            for t in d.trans[q]:
                if t >= 0 and t not in seen:
                    seen.add(t); work.append(t)
    return useful


def default_reachable(pack, group):
    """True iff some input lets the default rule fire in the group's condition: a string none of whose prefixes is
    accepted that reaches a dead end or the end of input."""
    _, _, dfas, part, start = H.emit_tables(pack, {})
    sc = pack.scindex[group.enter]
    ncls = part[1]
    for bol in (0, 1):
        d = dfas[start[sc][bol]]
        seen = {0}
        work = [0]
        while work:
            q = work.pop()
            for c in range(ncls):
                t = d.trans[q][c]
                if t < 0:
                    return True          # a byte no rule can continue with, before any rule has matched
                if d.acc[t]:
                    continue             # a rule has matched: this branch is covered
                if t not in seen:
                    seen.add(t); work.append(t)
            if q != 0:
                return True              # end of input inside an unfinished match: the default rule takes a character
    return False


def cannot_match_job(args):
    groups_spec, extra_flags, tag = args
    flex = build.get_flex()
    wd = H.mkscratch("c17")
    try:
        pack = H.Pack(groups_spec)
        spec = H.emit_spec(pack)
        # strip the harness: only flex's diagnostics matter here
        spec = spec.split("%%\n#include")[0] + "%%\n"
        spec = re.sub(r'%option pre-action=.*\n', '', spec)
        spec = re.sub(r'%option user-init=.*\n', '', spec)
        spec = spec.replace('#include "vf_pre.h"\n', '').replace("{ vf_body(); }", "{ }")
        if "ident-reject" in tag:
            # an ordinary identifier spelt like the REJECT keyword in lower case (flex's own scanner is caseless): it is not a use of REJECT
            spec = spec.replace("{ }", "{ int reject = 0, Reject = 1; (void)reject; (void)Reject; }")
        open(os.path.join(wd, "w.l"), "w").write(spec)
        rc, out, err = H.run_flex(flex, list(extra_flags) + ["-o", "w.c", "w.l"], wd)
        # "trailing context made variable due to preceding '|' action": the whole scanner then runs on the REJECT machinery, where
        # flex promises only to give no false warning (as under --reject)
        made_variable = "trailing context made variable" in err
        first_rule_line = min(pack.line2rule) if pack.line2rule else 0
        shift = 0
        # line numbers: emit_spec's numbering minus the removed header lines
        removed = 3          # pre-action, user-init, #include "vf_pre.h"
        warned = set()
        other = []
        for m in re.finditer(r"^[^:\n]*:(\d+): warning, (.*)$", err, re.M):
            ln, msg = int(m.group(1)) + removed, m.group(2)
            if "rule cannot be matched" in msg:
                rn = pack.line2rule.get(ln)
                if rn is None:
                    other.append("warning at line %d (%s) maps to no rule" % (ln - removed, msg))
                else:
                    warned.add(rn)
            elif "dangerous trailing context" in msg or "trailing context made variable" in msg:
                pass
            else:
                other.append(msg)
        res = {"rc": rc, "tag": tag, "reject_mode": made_variable, "warned": sorted(warned), "other": other, "stderr": err[-1500:], "expected": {}, "spec": spec,
               "scanner": open(os.path.join(wd, "w.c"), "rb").read() if rc == 0 and os.path.exists(os.path.join(wd, "w.c")) else b""}
        nr = pack.numbered_rules()
        exp_unmatch = set()
        for gi, g in enumerate(groups_spec):
            u = useful_rules(pack, gi, g, all_accepts="--reject" in extra_flags or made_variable)
            for n, gj, r in nr:
                if gj == gi and n not in u:
                    exp_unmatch.add(n)
        res["expected_unmatchable"] = sorted(exp_unmatch)
        res["labels"] = {n: groups_spec[gj].label for n, gj, r in nr}
        res["texts"] = {n: r.pattern_text() for n, gj, r in nr}
        return res
    finally:
        shutil.rmtree(wd, ignore_errors=True)


def default_job(args):
    group, tag = args
    flex = build.get_flex()
    wd = H.mkscratch("c17d")
    try:
        pack = H.Pack([group])
        lines = ["%option noyywrap nodefault", "%%"]
        for n, gi, r in pack.numbered_rules():
            lines.append("%s { }" % r.pattern_text())
        lines.append("%%")
        spec = "\n".join(lines) + "\n"
        open(os.path.join(wd, "d.l"), "w").write(spec)
        rc, out, err = H.run_flex(flex, ["-o", "d.c", "d.l"], wd)
        warned = "default rule can be matched" in err
        return {"rc": rc, "tag": tag, "warned": warned, "expected": default_reachable(pack, group), "stderr": err[-600:], "spec": spec}
    finally:
        shutil.rmtree(wd, ignore_errors=True)


def make_groups(quick):
    P = pool()
    gs = []
    n = 0
    idx = list(range(len(P)))
    pairs = list(itertools.permutations(idx, 2))
    triples = list(itertools.permutations(idx[:10] if quick else idx, 3))
    for combo in pairs + triples:
        name = "W%d" % n
        n += 1
        rules = [H.Rule(scs=[name], **P[i][1]) for i in combo]
        gs.append(H.Group([(name, True)], rules, name, b"ab", 0, label=" ; ".join(P[i][0] for i in combo)))
    # '|' actions next to unmatchable rules (warnings carry line numbers)
    for (i, j, k) in itertools.permutations(idx[:9], 3):
        if (i + j + k) % (5 if quick else 2):
            continue
        name = "W%d" % n
        n += 1
        rules = [H.Rule(scs=[name], action="|", **P[i][1]), H.Rule(scs=[name], **P[j][1]), H.Rule(scs=[name], **P[k][1])]
        gs.append(H.Group([(name, True)], rules, name, b"ab", 0, label="%s | %s ; %s" % (P[i][0], P[j][0], P[k][0])))
    # a '$' / trailing-context rule with a '|' action after an ordinary rule: the parser reduces 're$' without look-ahead, i.e. before
    # the scanner has seen the '|' (and counted its line) - round-5 seed C17-r5m3
    for p_ in (0, 3, 15, 16, 17):
        for i in (15, 16, 17):
            for k in (0, 1, 2):
                name = "W%d" % n
                n += 1
                rules = [H.Rule(scs=[name], **P[p_][1]), H.Rule(scs=[name], action="|", **P[i][1]), H.Rule(scs=[name], **P[k][1])]
                gs.append(H.Group([(name, True)], rules, name, b"ab", 0, label="%s ; %s | %s" % (P[p_][0], P[i][0], P[k][0])))
    # ... and the other way round: an ordinary '$' / trailing-context rule right after a '|' rule (reported by a round-7 sub-agent
    # about the unmodified tree: the warning named the '|' rule's line)
    for p_ in (0, 2, 15, 16):
        for i in (15, 16, 17):
            for k in (0, 15, 16):
                name = "W%d" % n
                n += 1
                rules = [H.Rule(scs=[name], action="|", **P[p_][1]), H.Rule(scs=[name], **P[i][1]), H.Rule(scs=[name], **P[k][1])]
                gs.append(H.Group([(name, True)], rules, name, b"ab", 0, label="%s | %s ; %s" % (P[p_][0], P[i][0], P[k][0])))
    # a rule that matches nothing at all (so it is unmatchable on the REJECT machinery too, which the preceding '|' forces), after a '|' rule
    EMPTY = dict(head=('set', frozenset()), eol=True, text="[a]{-}[a]$")
    for p_ in (0, 2, 3, 15):
        for k in (0, 1):
            name = "W%d" % n
            n += 1
            rules = [H.Rule(scs=[name], action="|", **P[p_][1]), H.Rule(scs=[name], **EMPTY), H.Rule(scs=[name], **P[k][1])]
            gs.append(H.Group([(name, True)], rules, name, b"ab", 0, label="%s | [a]{-}[a]$ ; %s" % (P[p_][0], P[k][0])))
    return gs


def run(tier):
    ck = Check("C17", tier, "model_checking")
    ck.flex()
    quick = tier == "quick"
    gs = make_groups(quick)
    jobs = []
    for ci, ch in enumerate(specgen.chunks(gs, 20)):
        jobs.append((ch, [], "cm-%d" % ci))
    for ci, ch in enumerate(specgen.chunks(gs[:200], 20)):
        jobs.append((ch, [], "cm-ident-reject-%d" % ci))
    # REJECT / variable trailing context: only "no false warning" is promised
    states = trans = 0
    ngroups = nrules = nwarn = 0
    wcheck = []
    for job, res in pmap(cannot_match_job, jobs, check=ck):
        if "worker_exception" in res:
            ck.broken.append("worker failed on %s: %s" % (job[2], res["worker_exception"]))
            continue
        if res["rc"] != 0:
            ck.violation("C17:flex-failed:" + job[2], "flex failed on a warning spec: " + res["stderr"][-300:], files={"w.l": res["spec"]})
            continue
        ngroups += len(job[0])
        exp, got = set(res["expected_unmatchable"]), set(res["warned"])
        nrules += len(res["labels"])
        nwarn += len(got)
        for n in sorted(exp ^ got):
            kind = "missing-warning" if n in exp else "false-warning"
            if kind == "missing-warning" and res.get("reject_mode"):
                continue          # on the REJECT machinery only "no false warning" is promised
            ck.violation("C17:%s:%s#%s" % (kind, res["labels"][str(n)] if str(n) in res["labels"] else res["labels"].get(n), res["texts"].get(n, res["texts"].get(str(n)))),
                         "rule set [%s]: rule '%s' %s" % (res["labels"].get(n), res["texts"].get(n),
                                                          "can never be selected but flex does not warn" if n in exp else
                                                          "is warned as 'cannot be matched' although some input selects it"),
                         files={"w.l": res["spec"]}, case={"stderr": res["stderr"], "expected_unmatchable": sorted(exp), "warned": sorted(got)})
        for o in res["other"]:
            if "maps to no rule" in o:
                ck.violation("C17:warning-line:" + job[2], "a 'rule cannot be matched' warning points at a line that holds no rule: " + o,
                             files={"w.l": res["spec"]}, case={"stderr": res["stderr"]})
        if len(wcheck) < (4 if quick else 20) and got:
            wcheck.append((job, res["scanner"]))
        if len(ck.samples) < 8:
            ck.sample({"spec": job[2], "first_rule_set": job[0][0].label, "expected_unmatchable": sorted(exp)[:6], "warned": sorted(got)[:6]})
    # REJECT: every matching rule may be reached, flex promises only that it gives no false warning - the same rule sets with --reject:
    # a warned rule must be one that belongs to no accepting set of any reachable state
    rj = [(ch, ["--reject"], "rj-%d" % ci) for ci, ch in enumerate(specgen.chunks(gs[:(400 if quick else len(gs))], 20))]
    nrej = 0
    for job, res in pmap(cannot_match_job, rj, check=ck):
        if "worker_exception" in res:
            ck.broken.append("worker failed on %s: %s" % (job[2], res["worker_exception"]))
            continue
        if res["rc"] != 0:
            ck.violation("C17:flex-failed:" + job[2], "flex --reject failed on a warning spec: " + res["stderr"][-300:], files={"w.l": res["spec"]})
            continue
        nrej += len(job[0])
        exp, got = set(res["expected_unmatchable"]), set(res["warned"])
        for n in sorted(got - exp):
            ck.violation("C17:reject:false-warning:%s#%s" % (res["labels"].get(n), res["texts"].get(n)),
                         "rule set [%s] in a REJECT scanner: rule '%s' is warned as 'cannot be matched' although it matches some input (and REJECT can reach it)" % (
                             res["labels"].get(n), res["texts"].get(n)), files={"w.l": res["spec"]}, case={"stderr": res["stderr"], "warned": sorted(got)})
    ck.cov["reject_rule_sets"] = nrej
    # -w silences the warnings and leaves the scanner byte-identical
    for (job, scanner) in wcheck:
        r2 = cannot_match_job((job[0], ["-w"], job[2] + "-w"))
        ck.add("nowarn_runs")
        if r2["warned"] or "warning" in r2["stderr"]:
            ck.violation("C17:-w-still-warns", "-w did not suppress the warnings: " + r2["stderr"][-200:], files={"w.l": r2["spec"]})
        if r2["scanner"] != scanner:
            ck.violation("C17:-w-changes-scanner", "the scanner generated with -w differs from the one generated without", files={"w.l": r2["spec"]})
    # default-rule warning under -s / nodefault: one rule set per specification
    P = pool()
    dgroups = []
    subsets = list(itertools.combinations(range(len(P)), 1)) + list(itertools.combinations(range(14), 2)) + [(10, 12), (11,), (5, 12, 25), (25, 0), (4, 12, 25, 0)]
    for si, combo in enumerate(subsets):
        rules = [H.Rule(scs=None, **P[i][1]) for i in combo]
        dgroups.append((H.Group([], rules, "INITIAL", b"ab", 0, label=" ; ".join(P[i][0] for i in combo)), "df-%d" % si))
    # variable trailing context / REJECT: flex only promises no FALSE warning; rule sets that cover every input must stay silent
    VT = [("a+/b+", dict(head=R.plus(A), trail=R.plus(B))), ("[ab]+/a*\\n", dict(head=R.plus(AB), trail=R.cat(R.star(A), NL))),
          ("(a|ab)/b*a", dict(head=R.alt(A, R.cat(A, B)), trail=R.cat(R.star(B), A)))]
    for vi, (vl, vk) in enumerate(VT):
        for ci, cover in enumerate(([11], [10, 12], [25, 0], [4, 25, 12])):
            rules = [H.Rule(scs=None, **vk)] + [H.Rule(scs=None, **P[i][1]) for i in cover]
            g = H.Group([], rules, "INITIAL", b"ab", 0, label=vl + " ; " + " ; ".join(P[i][0] for i in cover))
            g.no_false_only = True
            dgroups.append((g, "dfv-%d-%d" % (vi, ci)))
    ndef = 0
    for job, res in pmap(default_job, dgroups, check=ck):
        if "worker_exception" in res:
            ck.broken.append("worker failed on %s: %s" % (job[1], res["worker_exception"]))
            continue
        if res["rc"] != 0:
            ck.violation("C17:flex-failed:" + job[1], "flex failed: " + res["stderr"], files={"d.l": res["spec"]})
            continue
        ndef += 1
        if getattr(job[0], "no_false_only", False) and not (res["warned"] and not res["expected"]):
            continue
        if res["warned"] != res["expected"]:
            ck.violation("C17:default-rule:%s:%s" % ("missing" if res["expected"] else "false", job[0].label),
                         "rule set [%s] with -s: %s" % (job[0].label, "some input falls through to the default rule but flex does not warn" if res["expected"]
                                                        else "flex warns that the default rule can be matched although the rules cover every input"),
                         files={"d.l": res["spec"]}, case={"stderr": res["stderr"]})
    ck.cov.update(states=ngroups + ndef, transitions=nrules, traces_validated_against_impl=ngroups + ndef, evaluations=ngroups + ndef,
                  distinct_nontrivial=nwarn, rule_sets=ngroups, rules_judged=nrules, unmatchable_rules_warned=nwarn, default_rule_sets=ndef,
                  rule="every ordered pair and triple from a pool of 28 mutually shadowing patterns (anchors, trailing context, optional tails, "
                       "classes) and '|'-action variants, 20 rule sets per specification under exclusive conditions: the set of rules flex warns "
                       "about (mapped back through line numbers) must equal the rules that are the priority accept of no state reachable by a "
                       "non-empty string in the reference DFA of any (condition, beginning-of-line) start state; with -s, one rule set per "
                       "specification: warning iff some input reaches the default rule")
    ck.assumptions += ["rule sets with REJECT or variable trailing context are judged for false warnings only (that is all flex promises there)"]
    ck.guard(ngroups > 500 and nwarn > 100, "too few rule sets / warnings: %d / %d" % (ngroups, nwarn))
    return ck.finish()
