"""C10 - end of input: pending text tokenised, yywrap consulted, EOF action run
(DESIGN.md section 2, C10).  Histories of yylex / yywrap answers / <<EOF>> action
choices / yyrestart / new yyin are explored depth-first on the real scanner."""
import itertools
from .. import harness as H, bufharness as BH
from ..check import Check, pmap

CONDS = ["INITIAL", "A", "B"]
# calls enabled between yylex() calls: yyrestart, new yyin (+ yylex)
MASK = (1 << 11) | (1 << 12)


def assignments():
    out = []
    for n in range(0, 4):
        for q in itertools.combinations(CONDS, n):
            q = list(q)
            for unq in (False, True):
                for split in ((False, True) if len(q) > 1 else (False,)):
                    rules = ([[c] for c in q] if split else ([q] if q else []))
                    if unq:
                        rules = rules + [None]      # an unqualified <<EOF>> after the qualified ones
                    out.append(rules)
    return out


def run(tier):
    ck = Check("C10", tier, "model_checking")
    ck.flex()
    quick = tier == "quick"
    dev = 3 if quick else 6
    jobs = []
    asg = assignments()
    # sources ending inside a token that needs look-ahead ('ab' could continue), empty sources, one-token sources
    srcs = [b"aab\nab", b"a", b"", b"ca\nb", b"ab", b"\n"]
    for ai, a in enumerate(asg):
        apis = ("NR", "R", "C99") if (not quick or ai % 3 == 0) else (("NR",), ("R",), ("C99",))[ai % 3]
        for api in apis:
            for ro in ((None, 1) if (not quick or ai % 2 == 0) else (2,)):
                kn = {"VF_BUDGET_DEFAULT": dev, "VF_BUDGET_TOTAL": dev, "VF_CALLMASK": MASK, "VF_MAX_OPS": 2}
                if ro:
                    kn["VF_READ_ONE"] = ro
                jobs.append(BH.make_job(api, a, kn, "eof-%d-%s-%s" % (ai, api, ro), sources=srcs))
    # nested sources: buffers pushed from inside actions (include files), so that yywrap / <<EOF>> can also answer by popping back
    for api in ("NR", "R", "C99"):
        for a in (asg[0], asg[len(asg) // 2]):
            nd = max(dev, 5)          # re-pointing yyin, a push from an action and the pop at its end already take five deviations together
            kn = {"VF_BUDGET_DEFAULT": nd, "VF_BUDGET_TOTAL": nd, "VF_CALLMASK": MASK, "VF_MAX_OPS": 2, "VF_ACTION_PUSH": 1, "VF_READ_ONE": 1}
            jobs.append(BH.make_job(api, a, kn, "eof-nested-%s-%d" % (api, asg.index(a)), sources=srcs))
    # the manual's older multiple-buffer idiom - at the end of an included source, yy_delete_buffer(YY_CURRENT_BUFFER) and
    # yy_switch_to_buffer(saved) from yywrap() or from the <<EOF>> action - resuming a buffer that was left partly consumed
    # (round-4 seed C10-r4m1), and in-memory sources (yy_scan_string/bytes) continued with yyrestart / a new yyin, which is also what
    # yylex() does itself when yywrap() returns 0 at the end of a string (round-4 seed C10-r4m2)
    # these histories leave buffers behind: they run on the ledger allocator, which releases an execution's memory when it ends
    LEDGER = dict(options=["noyyalloc", "noyyrealloc", "noyyfree"], cdefs=["VF_LEDGER"])
    MASK_SAVED = MASK | (1 << 1) | (1 << 4)
    MASK_MEM = MASK | (1 << 7) | (1 << 8)
    for api in ("NR", "R", "C99"):
        for a in ([], [None], [["A"], None]):
            for ro in (None, 1):
                nd = 3 if quick else 5
                kn = {"VF_BUDGET_DEFAULT": nd, "VF_BUDGET_TOTAL": nd, "VF_CALLMASK": MASK_SAVED, "VF_MAX_OPS": 2, "VF_SAVED_SWITCH": 1}
                if ro:
                    kn["VF_READ_ONE"] = ro
                jobs.append(BH.make_job(api, a, kn, "eof-saved-%s-%d-%s" % (api, len(a), ro), sources=srcs, **LEDGER))
                kn = {"VF_BUDGET_DEFAULT": nd, "VF_BUDGET_TOTAL": nd, "VF_CALLMASK": MASK_MEM, "VF_MAX_OPS": 3, "VF_RESTART_MEM": 1}
                if ro:
                    kn["VF_READ_ONE"] = ro
                jobs.append(BH.make_job(api, a, kn, "eof-mem-%s-%d-%s" % (api, len(a), ro), sources=srcs, **LEDGER))
    # full and fast tables take other end-of-buffer paths
    for fa in (["-Cf"], ["-CFe"], ["-B"]):
        kn = {"VF_BUDGET_DEFAULT": dev, "VF_BUDGET_TOTAL": dev, "VF_CALLMASK": MASK, "VF_MAX_OPS": 2, "VF_READ_ONE": 1}
        jobs.append(BH.make_job("NR", [["A"], None], kn, "eof-tables%s" % "".join(fa), sources=srcs, flex_args=fa))
    tot = dict(executions=0, tokens=0, choice_points=0, nontrivial=0, reads=0, eof_actions=0, yywraps=0, horizons=0)
    calls = [0] * 13
    for job, res in pmap(H.run_groups_job, jobs, check=ck):
        if "worker_exception" in res:
            ck.broken.append("worker failed on %s: %s" % (job["tag"], res["worker_exception"]))
            continue
        if "build_failure" in res:
            bf = res["build_failure"]
            if H.harness_own_error(bf):
                ck.broken.append("harness does not compile (%s): %s" % (job["tag"], bf["stderr"][:400]))
            else:
                ck.violation("C10:%s-refused:%s" % (bf["stage"], job["tag"]), "%s failed: %s" % (bf["stage"], bf["stderr"][-300:]),
                             files={"s.l": bf["spec"]}, case={"stderr": bf["stderr"]})
            continue
        sm = res["summary"]
        if sm is None:
            ck.violation("C10:driver-crash:" + job["tag"], "harness scanner died (rc=%s): %s" % (res["rc"], (res["hard_error"] or res["stderr"])[-300:]),
                         files={"s.l": res.get("spec", ""), "s_tables.h": res.get("tables", "")}, case={"stderr": res["stderr"]})
            continue
        for k in tot:
            tot[k] += sm.get(k, 0)
        for i, n in enumerate(sm.get("calls", [])):
            calls[i] += n
        if sm.get("overflow") or sm.get("aborted"):
            ck.exhaustive = False
        for v in res["viols"]:
            ck.violation("C10:%s:%s" % (job["groups"][0].label, v.get("what", v.get("msg", v["viol"]))),
                         "%s [%s]: history '%s': %s (expected %s, observed %s, condition %s)" % (
                             job["groups"][0].label, job["tag"], v.get("history"), v.get("what", v.get("msg")), v.get("exp"), v.get("obs"), v.get("sc")),
                         case={"cmd": v["cmd"], "viol": {k: v[k] for k in v if k not in ("spec", "tables", "cmd")}},
                         files={"s.l": v["spec"], "s_tables.h": v["tables"]})
        ck.sample({"job": job["tag"], "eof_rules": str(job["groups"][0].label), "executions": sm["executions"], "eof_actions": sm.get("eof_actions")})
    # C++ scanners with the stock LexerInput() over std::istream: every sequence of <= 3 (thorough 4) re-supply operations after end of input
    from .. import cxxstream
    cxx_cases = 0
    for j, res in pmap(cxxstream.run_variant, [(v, ["histories", "3" if tier == "quick" else "4"]) for v in cxxstream.VARIANTS], check=ck):
        if "worker_exception" in res:
            ck.broken.append("C++ stream worker failed: %s" % res["worker_exception"])
            continue
        cxx_cases += cxxstream.judge(ck, res, "C10:cxx-stream")
    tot["executions"] += cxx_cases
    ck.cov["cxx_stream_histories"] = cxx_cases
    ck.guard(cxx_cases > 500, "C++ stream histories hardly exercised: %d" % cxx_cases)
    ck.cov.update(states=tot["choice_points"], transitions=tot["tokens"] + tot["yywraps"] + tot["eof_actions"],
                  traces_validated_against_impl=tot["executions"], evaluations=tot["executions"], distinct_nontrivial=tot["nontrivial"],
                  eof_assignments=len(asg), yywrap_calls=tot["yywraps"], eof_actions_run=tot["eof_actions"], restarts=calls[11], new_yyin=calls[12],
                  rule="every assignment of <<EOF>> rules to {INITIAL,A,B} (qualified subsets, one rule or one per condition, with or without an "
                       "unqualified rule after them) x every history within the deviation bound of: yywrap answers (stop / new yyin / switch to a "
                       "new buffer), <<EOF>> action endings (terminate / pop / new yyin / return), yyrestart and new-yyin calls after "
                       "termination, over six scripted sources (empty, one token, ending inside a token that needs look-ahead); whole, 1- and "
                       "2-byte reads; C++: after end of input on a std::istream, every sequence of yyrestart / switch_streams with the same "
                       "(re-armed) stream or a new one, by pointer and by reference, and yylex() again, x chunk sizes x 4 scanner variants")
    ck.assumptions += ["calling yylex() again after termination without a new source is undefined in the manual and not generated for C scanners; for C++ "
                       "streams it is (the stream simply stays at end of file: the EOF action runs again, no token)",
                       "an unqualified <<EOF>> rule is placed after the qualified ones (the manual's 'do not already have' is order dependent)",
                       "giving a user array (yy_scan_buffer) a new yyin / yyrestart is not described by the manual and not generated"]
    ck.guard(tot["executions"] > 20000, "too few executions: %d" % tot["executions"])
    ck.guard(tot["eof_actions"] > 1000 and tot["yywraps"] > 1000, "EOF paths hardly exercised")
    ck.guard(calls[11] > 0 and calls[12] > 0, "restart / new yyin never exercised")
    return ck.finish()
