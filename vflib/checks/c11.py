"""C11 - multiple input buffers keep independent positions and contents
(DESIGN.md section 2, C11).  Histories of create/scan_*/switch/push/pop/flush/
delete/restart/yylex (between calls), pushes from inside actions and yywrap
switching are explored depth-first; each buffer is modelled by a reference
scanner over its content alone."""
from .. import harness as H, bufharness as BH
from ..check import Check, pmap

NAMES = ["yylex", "create+switch", "create+push", "pop", "switch", "flush", "delete", "scan_bytes", "scan_string", "scan_buffer",
         "scan_buffer(bad)", "yyrestart", "new yyin"]


NULL_SPEC = """%option noyywrap
%{
#include <string.h>
static const char *in = "ab"; static int pos;
#define YY_INPUT(b,r,m) do { int n = (int)strlen(in) - pos; if (n > (int)(m)) n = (int)(m); memcpy(b, in + pos, n); pos += n; r = n; } while (0)
static int ntok;
%}
%%
[ab]   { ntok++; }
%%
int main(void) { yy_switch_to_buffer(yy_create_buffer(NULL, 16)); yylex(); printf("%d\\n", ntok); return 0; }
"""


def null_file_probe(flex):
    import os, shutil, subprocess
    wd = H.mkscratch("c11n")
    try:
        open(os.path.join(wd, "n.l"), "w").write(NULL_SPEC)
        rc, out, err = H.run_flex(flex, ["-o", "n.c", "n.l"], wd)
        if rc:
            return {"error": "flex: " + err}
        p = subprocess.run(["gcc", "-w", "-o", "n", "n.c"], cwd=wd, stdout=subprocess.PIPE, stderr=subprocess.PIPE)
        if p.returncode:
            return {"error": "cc: " + p.stderr.decode()[-300:]}
        p = subprocess.run(["./n"], cwd=wd, stdin=subprocess.DEVNULL, stdout=subprocess.PIPE, stderr=subprocess.PIPE, timeout=20)
        try:
            return {"tokens": int(p.stdout.decode().strip() or -1), "rc": p.returncode}
        except ValueError:
            return {"tokens": -1, "rc": p.returncode, "stdout": p.stdout.decode()[:200]}
    finally:
        shutil.rmtree(wd, ignore_errors=True)


def run(tier):
    ck = Check("C11", tier, "model_checking")
    ck.flex()
    quick = tier == "quick"
    dev = 3 if quick else 4
    jobs = []
    # The histories run on the exact-size ledger allocator: every execution's memory is released when it ends (also when the
    # fatal-error hook abandoned it), so hundreds of millions of executions fit in memory - an earlier thorough run with the
    # default allocator was killed by the kernel at 64 GB.  One set at deviation 2 keeps malloc/realloc in the picture.
    LEDGER = dict(options=["noyyalloc", "noyyrealloc", "noyyfree"], cdefs=["VF_LEDGER"])
    for api in ("NR", "R", "C99"):
        jobs.append(BH.make_job(api, [None], {"VF_BUDGET_DEFAULT": 2, "VF_BUDGET_TOTAL": 2, "VF_CALLMASK": 0x1fff & ~(1 << 12), "VF_MAX_OPS": 2, "VF_ACTION_PUSH": 1,
                                              "VF_READ_ONE": 1}, "buf-malloc-%s" % api))
    full = 0x1fff & ~(1 << 12)           # everything except "new yyin" (C10)
    for api in ("NR", "R", "C99"):
        for ro in (None, 1, 2):
            for fa in ([], ["-Cf"]) if (ro == 1 and api == "NR") else ([],):
                kn = {"VF_BUDGET_DEFAULT": dev, "VF_BUDGET_TOTAL": dev, "VF_CALLMASK": full, "VF_MAX_OPS": dev, "VF_ACTION_PUSH": 1}
                if ro:
                    kn["VF_READ_ONE"] = ro
                jobs.append(BH.make_job(api, [None], kn, "buf-%s-%s%s" % (api, ro, "".join(fa)), flex_args=fa, **LEDGER))
        # without an <<EOF>> rule (default termination) and with reject (state buffer follows the buffer size)
        jobs.append(BH.make_job(api, [], {"VF_BUDGET_DEFAULT": dev, "VF_BUDGET_TOTAL": dev, "VF_CALLMASK": full, "VF_MAX_OPS": dev,
                                          "VF_READ_ONE": 2}, "buf-noeof-" + api, **LEDGER))
    jobs.append(BH.make_job("NR", [None], {"VF_BUDGET_DEFAULT": dev, "VF_BUDGET_TOTAL": dev, "VF_CALLMASK": full, "VF_MAX_OPS": dev,
                                           "VF_READ_ONE": 3, "VF_EXPECT_FATAL": '"scanner uses yyreject"'}, "buf-reject", options=["reject"] + LEDGER["options"], cdefs=LEDGER["cdefs"]))
    # the in-memory sources under the address sanitizer: yy_scan_bytes / yy_scan_string are handed heap blocks of exactly the size they
    # may read (round-7 seed C11-r7m3: two bytes too many copied)
    mem_mask = (1 << 7) | (1 << 8) | (1 << 9) | (1 << 10)
    for api in ("NR", "R", "C99"):
        jobs.append(BH.make_job(api, [None], {"VF_BUDGET_DEFAULT": 2, "VF_BUDGET_TOTAL": 2, "VF_CALLMASK": mem_mask, "VF_MAX_OPS": 2}, "buf-mem-asan-" + api, san=True))
    # deep nesting: pushes from actions and between calls well beyond the initial stack allocation
    deep_src = [b"ab\nba" if i % 2 else b"b\naab" for i in range(40)]
    for api in ("NR", "R", "C99"):
        for depth in (9, 21, 37):
            kn = {"VF_BUDGET_DEFAULT": 0, "VF_BUDGET_TOTAL": 0, "VF_CALLMASK": (1 << 2) | (1 << 3), "VF_MAX_OPS": 200, "VF_DEEP": depth}
            jobs.append(BH.make_job(api, [], kn, "deep%d-%s" % (depth, api), sources=deep_src, **LEDGER))
    tot = dict(executions=0, tokens=0, choice_points=0, nontrivial=0, reads=0, eof_actions=0, yywraps=0, horizons=0)
    calls = [0] * 13
    for job, res in pmap(H.run_groups_job, jobs, check=ck):
        if "worker_exception" in res:
            ck.broken.append("worker failed on %s: %s" % (job["tag"], res["worker_exception"]))
            continue
        if "build_failure" in res:
            bf = res["build_failure"]
            if H.harness_own_error(bf):
                ck.broken.append("harness does not compile (%s): %s" % (job["tag"], bf["stderr"][:400]))
            else:
                ck.violation("C11:%s-refused:%s" % (bf["stage"], job["tag"]), "%s failed: %s" % (bf["stage"], bf["stderr"][-300:]),
                             files={"s.l": bf["spec"]}, case={"stderr": bf["stderr"]})
            continue
        sm = res["summary"]
        if sm is None:
            ck.violation("C11:driver-crash:" + job["tag"], "harness scanner died (rc=%s): %s" % (res["rc"], (res["hard_error"] or res["stderr"])[-300:]),
                         files={"s.l": res.get("spec", ""), "s_tables.h": res.get("tables", "")}, case={"stderr": res["stderr"]})
            continue
        for k in tot:
            tot[k] += sm.get(k, 0)
        for i, n in enumerate(sm.get("calls", [])):
            calls[i] += n
        if sm.get("overflow") or sm.get("aborted"):
            ck.exhaustive = False
        for v in res["viols"]:
            ck.violation("C11:%s:%s" % (job["tag"], v.get("what", v.get("msg", v["viol"]))),
                         "[%s] history '%s': %s (expected %s, observed %s, condition %s)" % (
                             job["tag"], v.get("history"), v.get("what", v.get("msg")), v.get("exp"), v.get("obs"), v.get("sc")),
                         case={"cmd": v["cmd"], "viol": {k: v[k] for k in v if k not in ("spec", "tables", "cmd")}},
                         files={"s.l": v["spec"], "s_tables.h": v["tables"]})
        ck.sample({"job": job["tag"], "executions": sm["executions"], "calls": dict(zip(NAMES, sm.get("calls", [])))})
    # directed probe: "If you redefine yyread() so it no longer uses yyin, then you can safely pass a NULL FILE pointer to yy_create_buffer"
    r = null_file_probe(ck.flex())
    ck.add("directed_probes")
    if r.get("error"):
        ck.broken.append("NULL-file probe could not be built: " + r["error"][:300])
    elif r["tokens"] != 2:
        ck.violation("C11:create_buffer-NULL-file-not-read", "yy_create_buffer(NULL, size) with a user input routine: %d of 2 tokens scanned "
                     "(the buffer is marked as not refillable and reports end of input at once)" % r["tokens"], case=r, files={"n.l": NULL_SPEC})
    ck.cov.update(states=tot["choice_points"], transitions=sum(calls) + tot["yywraps"], traces_validated_against_impl=tot["executions"],
                  evaluations=tot["executions"], distinct_nontrivial=tot["nontrivial"], tokens_compared=tot["tokens"],
                  calls=dict(zip(NAMES, calls)),
                  rule="every history with at most k non-default choices among: between-call operations (create+switch, create+push, pop, "
                       "switch, flush, delete, yy_scan_bytes/string/buffer good and bad, yyrestart; arguments exhaustive), a push from inside "
                       "an action, yywrap answers and <<EOF>> action endings; every token must come from the current buffer's content at that "
                       "buffer's own position, with its own beginning-of-line state, in the unchanged start condition; reads must be requested "
                       "from the current buffer's source only; non-trivial = >= 1 operation and >= 2 buffers")
    ck.assumptions += ["uses the manual forbids or leaves open are not generated: deleting or switching to a buffer that sits below the top of the "
                       "stack, yylex() with no current buffer after the first call, buffer calls between assigning yyin and the next yylex()",
                       "buffers of the histories are created on (fake) FILE pointers; a NULL FILE with a user yyread is the directed probe"]
    ck.guard(tot["executions"] > 20000, "too few executions: %d" % tot["executions"])
    for i in range(1, 12):
        ck.guard(calls[i] > 0, "operation %s never exercised" % NAMES[i])
    return ck.finish()
