"""C14 - allocation and read failures in the scanner are reported, never absorbed
(DESIGN.md section 2, C14).  For each scenario every allocation request is made to fail in
turn, and every kind of read fault is injected at every read request."""
from .. import regex as R, harness as H
from ..check import Check, pmap

A, B, NL = R.lit('a'), R.lit('b'), R.lit(10)
PATHS = {0: "user-yyread", 1: "fread", 2: "getc", 3: "read(2)"}


def scenario_groups(api, reject=False, more=False):
    act = "{ }"
    if reject:
        act = H.ops_action([H.OP_REJECT], api)
    name = "F"
    rules = [H.Rule(R.plus(A), scs=[name], action=act), H.Rule(R.cat(A, B), scs=[name], action=act), H.Rule(NL, scs=[name], action=act),
             H.Rule(R.cat(R.plus(B), NL), scs=[name], action=act)]
    inputs = [b"aab\nab\n", b"a" * 40 + b"\n" + b"b" * 9 + b"\n", b"ab", b"\n\n\n"]
    return [H.Group([(name, True)], rules, name, b"ab\n", 0, inputs, label="faults:" + ("reject" if reject else "plain"))]


def run(tier):
    ck = Check("C14", tier, "fault_enumeration")
    ck.flex()
    quick = tier == "quick"
    jobs = []
    for api in ("NR", "R", "C99"):
        for di in (0, 1, 2, 3):
            for rej in (0, 1):
                if rej and di in (2, 3) and quick:
                    continue
                opts = ["noyyalloc", "noyyrealloc", "noyyfree"] + (["reentrant"] if api == "R" else [])
                cdefs = ["VF_LEDGER", "VF_FAULTS"] + (["VF_DEFAULT_INPUT=%d" % di] if di else [])
                fa = ["-Cr"] if di == 3 else []
                kn = {"VF_BUFSIZES": "0,4,64" if not rej else "0,64"}
                if rej:
                    kn.update(VF_OPMASK=H.opmask(H.OP_REJECT))
                for san in ((True, False) if not quick else (True,)):
                    jobs.append(dict(groups=scenario_groups(api, bool(rej)), options=opts, api=api, cdefs=cdefs, flex_args=fa, knobs=kn,
                                     tag="%s/%s/%s%s" % (api, PATHS[di], "reject" if rej else "plain", "/asan" if san else ""), san=san,
                                     path=PATHS[di], driver_args=["-H", "4000"]))
    tot = dict(fault_runs=0, fault_ok=0, alloc_faults=0, read_faults=0, executions=0)
    for job, res in pmap(H.run_groups_job, jobs, check=ck):
        if "worker_exception" in res:
            ck.broken.append("worker failed on %s: %s" % (job["tag"], res["worker_exception"]))
            continue
        if "build_failure" in res:
            bf = res["build_failure"]
            if H.harness_own_error(bf):
                ck.broken.append("harness does not compile (%s): %s" % (job["tag"], bf["stderr"][:400]))
            else:
                ck.violation("C14:%s-refused:%s" % (bf["stage"], job["tag"]), "%s failed: %s" % (bf["stage"], bf["stderr"][-300:]),
                             files={"s.l": bf["spec"]}, case={"stderr": bf["stderr"]})
            continue
        sm = res["summary"]
        if sm is None or res["rc"] != 0:
            ck.violation("C14:crash:" + job["tag"], "scanner crashed or the sanitizer reported an error under an injected fault (rc=%s): %s" % (
                res["rc"], (res["hard_error"] or res["stderr"])[-600:]),
                files={"s.l": res.get("spec", ""), "s_tables.h": res.get("tables", "")}, case={"stderr": res["stderr"]})
            continue
        if "ERROR: AddressSanitizer" in res["stderr"] or "runtime error" in res["stderr"]:
            ck.violation("C14:sanitizer:" + job["tag"], "sanitizer report under an injected fault: " + res["stderr"][-600:], case={"stderr": res["stderr"]})
        for k in tot:
            tot[k] += sm.get(k, 0)
        for v in res["viols"]:
            if v.get("viol") == "fault":
                sig = "C14:%s:%s" % (job["path"], str(v.get("fault")).replace("EINTR twice", "EINTR"))
            else:
                sig = "C14:%s:%s" % (job["tag"], v.get("what", v.get("msg", v["viol"])))
            ck.violation(sig, "%s: input %s bufsize %s: %s" % (job["tag"], v.get("input"), v.get("bufsize"), v.get("what", v.get("msg"))),
                         case={"cmd": v["cmd"], "viol": {k: v[k] for k in v if k not in ("spec", "tables", "cmd")}},
                         files={"s.l": v["spec"], "s_tables.h": v["tables"]})
        ck.sample({"scenario": job["tag"], "allocation_faults": sm.get("alloc_faults"), "read_faults": sm.get("read_faults"), "as_documented": sm.get("fault_ok")})
    # C++ input path: the K-th underflow() of the streambuf throws, the istream goes bad(): every K x chunk size x scanner variant
    from .. import cxxstream
    cxx_cases = 0
    for j, res in pmap(cxxstream.run_variant, [(v, ["faults"]) for v in cxxstream.VARIANTS], check=ck):
        if "worker_exception" in res:
            ck.broken.append("C++ stream worker failed: %s" % res["worker_exception"])
            continue
        cxx_cases += cxxstream.judge(ck, res, "C14:cxx-stream")
    tot["fault_runs"] += cxx_cases
    tot["read_faults"] += cxx_cases
    ck.cov["cxx_stream_faults"] = cxx_cases
    ck.guard(cxx_cases > 1000, "C++ stream faults hardly exercised: %d" % cxx_cases)
    ck.cov.update(evaluations=tot["fault_runs"], distinct_nontrivial=tot["fault_ok"] + cxx_cases, allocation_faults=tot["alloc_faults"], read_faults=tot["read_faults"],
                  scenarios=len(jobs),
                  rule="scenario = API x input path x rule set (plain / REJECT) x input x buffer size; a clean run counts N allocation requests and R "
                       "read requests; then one run per k <= N with request k failing, and one run per j <= R x {EINTR, EINTR twice, read error, "
                       "EINTR after a partial fread}; C++: stock LexerInput over a streambuf whose K-th underflow() throws, every K x 5 chunk sizes x "
                       "{interactive, batch, -Cf, -Cr}: the scanner must stop through LexerError; distinct_nontrivial counts the fault runs whose outcome was the documented one (error return / "
                       "fatal-error hook with a message / retry with unchanged tokens)")
    ck.assumptions += ["a user-supplied yyread has no errno protocol, so read faults are injected only on the scanner's own fread / getc / read(2) paths",
                       "memory still held when the fatal-error hook is reached is not judged (the program is expected to exit)",
                       "yytables_fload is covered by C15; C++ allocation failures (operator new throws) are outside the scanner's control"]
    ck.guard(tot["alloc_faults"] > 200 and tot["read_faults"] > 200, "too few faults injected: %s" % tot)
    return ck.finish()
