"""C14 - allocation and read failures in the scanner are reported, never absorbed
(DESIGN.md section 2, C14).  For each scenario every allocation request is made to fail in
turn, and every kind of read fault is injected at every read request."""
from .. import regex as R, harness as H
from ..check import Check, pmap

A, B, NL = R.lit('a'), R.lit('b'), R.lit(10)
PATHS = {0: "user-yyread", 1: "fread", 2: "getc", 3: "read(2)"}


def scenario_groups(api, reject=False, more=False):
    act = "{ }"
    if reject:
        act = H.ops_action([H.OP_REJECT], api)
    name = "F"
    rules = [H.Rule(R.plus(A), scs=[name], action=act), H.Rule(R.cat(A, B), scs=[name], action=act), H.Rule(NL, scs=[name], action=act),
             H.Rule(R.cat(R.plus(B), NL), scs=[name], action=act)]
    inputs = [b"aab\nab\n", b"a" * 40 + b"\n" + b"b" * 9 + b"\n", b"ab", b"\n\n\n"]
    return [H.Group([(name, True)], rules, name, b"ab\n", 0, inputs, label="faults:" + ("reject" if reject else "plain"))]


def tables_afail(args):
    import shutil
    from . import c15
    rs, tb, api = args
    b = c15.build_scanner((rs, tb, api, [], "", False, True))
    if "error" in b:
        return {"error": b["error"] + ": " + b.get("stderr", "")[-200:]}
    res = {"faults": 0, "viol": []}
    try:
        rc, out, err = c15.run_exe(b["wd"], ["afail", "t.tables"])
        if rc != 0 or "AddressSanitizer" in err or "runtime error" in err:
            res["viol"].append("driver ended abnormally rc=%s: %s" % (rc, err[-400:]))
        for l in out.splitlines():
            f = l.split(" ", 3)
            if len(f) < 3 or f[0] != "A":
                continue
            rest = f[3] if len(f) > 3 else ""
            ledger_bad = not rest.rstrip().endswith("|0") or (rest.split("|")[1].strip() if "|" in rest else "")
            if f[1] in ("0", "end"):
                if f[2] != "S" or ledger_bad:
                    res["viol"].append("load without a fault: %s" % l)
                continue
            res["faults"] += 1
            if f[2] == "S":
                res["viol"].append("allocation request %s failed but yytables_fload reported success: %s" % (f[1], l))
            elif f[2] == "F" and ledger_bad:      # after the fatal-error hook the program is expected to exit: what it still holds is not judged
                res["viol"].append("after a failed allocation request %s: %s" % (f[1], l))
    finally:
        shutil.rmtree(b["wd"], ignore_errors=True)
    return res


EINVAL_SPEC = """%%option noyywrap %s
%%%%
a return 1;
%%%%
#include <errno.h>
int main(void) {
    int r1, e1, r2, e2; yyscan_t s = 0;
    errno = 0; r1 = yylex_init((yyscan_t *)0); e1 = errno;
    errno = 0; r2 = yylex_init_extra(0, (yyscan_t *)0); e2 = errno;
    printf("%%d %%d %%d %%d\\n", r1 != 0, e1 == EINVAL, r2 != 0, e2 == EINVAL);
    if (yylex_init(&s) == 0) yylex_destroy(s);
    return 0;
}
"""


def einval_probe(api):
    import os, shutil, subprocess
    from .. import build
    flex = build.get_flex()
    wd = H.mkscratch("c14e")
    try:
        open(os.path.join(wd, "e.l"), "w").write(EINVAL_SPEC % ("reentrant" if api == "R" else 'emit="c99" extra-type="void *"'))
        rc, out, err = H.run_flex(flex, ["-o", "e.c", "e.l"], wd)
        if rc:
            return {"viol": "flex failed: " + err[-200:]}
        c = subprocess.run(["gcc", "-w", "-fsanitize=address,undefined", "-o", "e.exe", "e.c"], cwd=wd, env=H.ENV, stdout=subprocess.PIPE, stderr=subprocess.PIPE)
        if c.returncode:
            return {"viol": "does not compile: " + c.stderr.decode("latin-1")[-300:]}
        r = subprocess.run(["./e.exe"], cwd=wd, env=H.ENV, stdout=subprocess.PIPE, stderr=subprocess.PIPE, timeout=30)
        if r.stdout.decode().strip() != "1 1 1 1":
            return {"viol": "yylex_init(NULL) / yylex_init_extra(x, NULL) must return non-zero with errno EINVAL: got (nonzero, EINVAL, nonzero, EINVAL) = %s %s" % (
                r.stdout.decode().strip(), r.stderr.decode("latin-1")[-200:])}
        return {}
    finally:
        shutil.rmtree(wd, ignore_errors=True)


def run(tier):
    ck = Check("C14", tier, "fault_enumeration")
    ck.flex()
    quick = tier == "quick"
    jobs = []
    for api in ("NR", "R", "C99"):
        for di in (0, 1, 2, 3):
            for rej in (0, 1):
                if rej and di in (2, 3) and quick:
                    continue
                opts = ["noyyalloc", "noyyrealloc", "noyyfree"] + (["reentrant"] if api == "R" else [])
                cdefs = ["VF_LEDGER", "VF_FAULTS"] + (["VF_DEFAULT_INPUT=%d" % di] if di else [])
                fa = ["-Cr"] if di == 3 else []
                kn = {"VF_BUFSIZES": "0,4,64" if not rej else "0,64"}
                if rej:
                    kn.update(VF_OPMASK=H.opmask(H.OP_REJECT))
                for san in ((True, False) if not quick else (True,)):
                    jobs.append(dict(groups=scenario_groups(api, bool(rej)), options=opts, api=api, cdefs=cdefs, flex_args=fa, knobs=kn,
                                     tag="%s/%s/%s%s" % (api, PATHS[di], "reject" if rej else "plain", "/asan" if san else ""), san=san,
                                     path=PATHS[di], driver_args=["-H", "4000"]))
    # scanners made with yylex_init_extra(): the same allocations fail (round-5 seed C14-r5m3)
    for api in ("R", "C99"):
        opts = ["noyyalloc", "noyyrealloc", "noyyfree"] + (["reentrant"] if api == "R" else ['extra-type="void *"'])   # c99 has yyextra only with extra-type
        jobs.append(dict(groups=scenario_groups(api, False), options=opts, api=api, cdefs=["VF_LEDGER", "VF_FAULTS", "VF_INIT_EXTRA"], flex_args=[],
                         knobs={"VF_BUFSIZES": "0,4"}, tag="%s/user/plain/init_extra/asan" % api, san=True, path="user", driver_args=["-H", "4000"]))
    # the start-condition stack grows by reallocation (first growth at the 26th push): every token pushes the current condition
    for api in ("NR", "R", "C99"):
        sarg = ", yyscanner" if api in ("R", "C99") else ""
        act = "{ yy_push_state(yystart()%s); }" % sarg
        rules = [H.Rule(A, scs=["F"], action=act), H.Rule(NL, scs=["F"], action="{ }")]
        g = H.Group([("F", True)], rules, "F", b"a\n", 0, [b"a" * 30 + b"\n", b"a" * 55 + b"\n"], label="faults:stack")
        opts = ["noyyalloc", "noyyrealloc", "noyyfree", "stack"] + (["reentrant"] if api == "R" else [])
        jobs.append(dict(groups=[g], options=opts, api=api, cdefs=["VF_LEDGER", "VF_FAULTS"], flex_args=[], knobs={"VF_BUFSIZES": "0"},
                         tag="%s/user/stack-growth/asan" % api, san=True, path="user", driver_args=["-H", "4000"]))
    tot = dict(fault_runs=0, fault_ok=0, alloc_faults=0, read_faults=0, executions=0)
    for job, res in pmap(H.run_groups_job, jobs, check=ck):
        if "worker_exception" in res:
            ck.broken.append("worker failed on %s: %s" % (job["tag"], res["worker_exception"]))
            continue
        if "build_failure" in res:
            bf = res["build_failure"]
            if H.harness_own_error(bf):
                ck.broken.append("harness does not compile (%s): %s" % (job["tag"], bf["stderr"][:400]))
            else:
                ck.violation("C14:%s-refused:%s" % (bf["stage"], job["tag"]), "%s failed: %s" % (bf["stage"], bf["stderr"][-300:]),
                             files={"s.l": bf["spec"]}, case={"stderr": bf["stderr"]})
            continue
        sm = res["summary"]
        if sm is None or res["rc"] != 0:
            ck.violation("C14:crash:" + job["tag"], "scanner crashed or the sanitizer reported an error under an injected fault (rc=%s): %s" % (
                res["rc"], (res["hard_error"] or res["stderr"])[-600:]),
                files={"s.l": res.get("spec", ""), "s_tables.h": res.get("tables", "")}, case={"stderr": res["stderr"]})
            continue
        if "ERROR: AddressSanitizer" in res["stderr"] or "runtime error" in res["stderr"]:
            ck.violation("C14:sanitizer:" + job["tag"], "sanitizer report under an injected fault: " + res["stderr"][-600:], case={"stderr": res["stderr"]})
        for k in tot:
            tot[k] += sm.get(k, 0)
        for v in res["viols"]:
            if v.get("viol") == "fault":
                sig = "C14:%s:%s" % (job["path"], str(v.get("fault")).replace("EINTR twice", "EINTR"))
            else:
                sig = "C14:%s:%s" % (job["tag"], v.get("what", v.get("msg", v["viol"])))
            ck.violation(sig, "%s: input %s bufsize %s: %s" % (job["tag"], v.get("input"), v.get("bufsize"), v.get("what", v.get("msg"))),
                         case={"cmd": v["cmd"], "viol": {k: v[k] for k in v if k not in ("spec", "tables", "cmd")}},
                         files={"s.l": v["spec"], "s_tables.h": v["tables"]})
        ck.sample({"scenario": job["tag"], "allocation_faults": sm.get("alloc_faults"), "read_faults": sm.get("read_faults"), "as_documented": sm.get("fault_ok")})
    # yytables_fload: the k-th allocation request during the load fails, for every k (tables driver, ledger allocator, ASan)
    from . import c15
    tl = 0
    for job, r in pmap(tables_afail, [(rs, tb, api) for rs in ("kw", "trail") for tb in (("-Cem", "-Cf") if tier == "quick" else ("-Cem", "-Cf", "-CFe", "-C"))
                                      for api in ("NR", "R")], check=ck):
        if "worker_exception" in r:
            ck.broken.append("tables worker failed: %s" % r["worker_exception"])
            continue
        if r.get("error"):
            ck.notes.append("tables scenario %s not built: %s" % (job, r["error"]))
            continue
        tl += r["faults"]
        for what in r["viol"]:
            ck.violation("C14:tables-load:alloc", "yytables_fload with a failing allocation (%s %s %s): %s" % (job + (what,)))
    tot["fault_runs"] += tl
    tot["alloc_faults"] += tl
    ck.cov["tables_load_alloc_faults"] = tl
    ck.guard(tl > 20, "allocation faults during yytables_fload hardly exercised: %d" % tl)
    # the documented EINVAL returns of yylex_init / yylex_init_extra
    for api, r in pmap(einval_probe, ["R", "C99"], check=ck):
        if r.get("viol"):
            ck.violation("C14:init:EINVAL:" + api, "%s: %s" % (api, r["viol"]))
        ck.add("init_einval_probes")
    # C++ input path: the K-th underflow() of the streambuf throws, the istream goes bad(): every K x chunk size x scanner variant
    from .. import cxxstream
    cxx_cases = 0
    for j, res in pmap(cxxstream.run_variant, [(v, ["faults"]) for v in cxxstream.VARIANTS], check=ck):
        if "worker_exception" in res:
            ck.broken.append("C++ stream worker failed: %s" % res["worker_exception"])
            continue
        cxx_cases += cxxstream.judge(ck, res, "C14:cxx-stream")
    tot["fault_runs"] += cxx_cases
    tot["read_faults"] += cxx_cases
    ck.cov["cxx_stream_faults"] = cxx_cases
    ck.guard(cxx_cases > 1000, "C++ stream faults hardly exercised: %d" % cxx_cases)
    ck.cov.update(evaluations=tot["fault_runs"], distinct_nontrivial=tot["fault_ok"] + cxx_cases, allocation_faults=tot["alloc_faults"], read_faults=tot["read_faults"],
                  scenarios=len(jobs),
                  rule="scenario = API x input path x rule set (plain / REJECT) x input x buffer size; a clean run counts N allocation requests and R "
                       "read requests; then one run per k <= N with request k failing, and one run per j <= R x {EINTR, EINTR twice, read error, "
                       "EINTR after a partial fread}; C++: stock LexerInput over a streambuf whose K-th underflow() throws, every K x 5 chunk sizes x "
                       "{interactive, batch, -Cf, -Cr}: the scanner must stop through LexerError; distinct_nontrivial counts the fault runs whose outcome was the documented one (error return / "
                       "fatal-error hook with a message / retry with unchanged tokens)")
    ck.assumptions += ["a user-supplied yyread has no errno protocol, so read faults are injected only on the scanner's own fread / getc / read(2) paths",
                       "memory still held when the fatal-error hook is reached is not judged (the program is expected to exit)",
                       "yytables_fload is covered by C15; C++ allocation failures (operator new throws) are outside the scanner's control"]
    ck.guard(tot["alloc_faults"] > 200 and tot["read_faults"] > 200, "too few faults injected: %s" % tot)
    return ck.finish()
