"""Common frame of every check: tier/seed/deadline, violations with replay
directories, known findings, evidence file, exit status."""
import json, os, shutil, sys, time, hashlib, traceback
from concurrent.futures import ProcessPoolExecutor, as_completed
from . import build

VERIF = os.path.dirname(os.path.dirname(os.path.abspath(__file__)))
NPROC = int(os.environ.get("VERIF_JOBS", "16"))
QUICK_BUDGET = float(os.environ.get("VERIF_QUICK_S", "150"))
THOROUGH_BUDGET = float(os.environ.get("VERIF_THOROUGH_S", "2400"))


def load_findings():
    p = os.path.join(VERIF, "known_findings.json")
    try:
        return json.load(open(p)).get("findings", [])
    except (OSError, ValueError):
        return []


class Check:
    def __init__(self, pid, tier, level):
        self.pid, self.tier, self.level = pid, tier, level
        self.seed = int(os.environ.get("VERIF_SEED", "0") or 0)
        self.t0 = time.time()
        self.deadline = self.t0 + (QUICK_BUDGET if tier == "quick" else THOROUGH_BUDGET)
        self.cov = {}
        self.samples = []
        self.assumptions = []
        self.notes = []
        self.violations = []       # (signature, what, replay)
        self.known_hits = {}       # signature -> what
        self.sig_seen = {}
        self.exhaustive = True
        self.broken = []
        self.known = [f for f in load_findings() if f.get("property") == pid and f.get("status", "known") == "known"]
        self.replay_root = os.path.join(VERIF, "replays", pid)
        self._nreplay = 0
        if os.path.isdir(self.replay_root):
            shutil.rmtree(self.replay_root, ignore_errors=True)

    # ---- time ----
    def time_left(self):
        return self.deadline - time.time()

    def out_of_time(self, reserve=0.0):
        if time.time() + reserve > self.deadline:
            self.exhaustive = False
            return True
        return False

    # ---- flex under test ----
    def flex(self, flavour="plain"):
        try:
            return build.get_flex(flavour)
        except build.BuildError as e:
            rp = self.new_replay_dir()
            try:
                shutil.copy(e.log, os.path.join(rp, "build.log"))
            except OSError:
                pass
            with open(os.path.join(rp, "case.json"), "w") as f:
                json.dump({"property": self.pid, "signature": "build-failure", "what": str(e)}, f, indent=1)
            self.violations.append(("build-failure", "flex does not build from the working tree: %s" % e, rp))
            self.cov.setdefault("evaluations", 1)
            self.finish_and_exit()

    # ---- violations ----
    def new_replay_dir(self):
        self._nreplay += 1
        d = os.path.join(self.replay_root, "%03d" % self._nreplay)
        os.makedirs(d, exist_ok=True)
        return d

    def is_known(self, signature):
        for f in self.known:
            s = f.get("signature", "")
            if s == signature or (s.endswith("*") and signature.startswith(s[:-1])):
                return f
        return None

    def violation(self, signature, what, case=None, files=None, copy_from=None, max_per_sig=1, replay=None):
        """Record a violation.  signature is a narrow root-cause key.  Returns
        True if it is new (not a listed known finding)."""
        k = self.is_known(signature)
        if k is not None:
            self.known_hits.setdefault(k.get("signature"), k.get("what", what))
            return False
        n = self.sig_seen.get(signature, 0)
        self.sig_seen[signature] = n + 1
        if n >= max_per_sig:
            return True
        rp = self.new_replay_dir()
        c = dict(case or {})
        c.update({"property": self.pid, "signature": signature, "what": what})
        if replay is not None:
            c["replay"] = replay          # {"module": ..., "func": ..., "args": ...}: ./vf replay re-runs exactly this case
        for name, content in (files or {}).items():
            mode = "wb" if isinstance(content, bytes) else "w"
            with open(os.path.join(rp, name), mode) as f:
                f.write(content)
        if copy_from:
            for src in copy_from:
                try:
                    if os.path.isdir(src):
                        shutil.copytree(src, os.path.join(rp, os.path.basename(src)))
                    else:
                        shutil.copy(src, rp)
                except OSError:
                    pass
        with open(os.path.join(rp, "case.json"), "w") as f:
            json.dump(c, f, indent=1, default=str)
        self.violations.append((signature, what, rp))
        return True

    def guard(self, cond, msg):
        """A vacuity guard: failing makes the check broken (exit 2), not a violation."""
        if not cond:
            self.broken.append(msg)

    def add(self, key, n=1):
        self.cov[key] = self.cov.get(key, 0) + n

    def sample(self, s, limit=12):
        if len(self.samples) < limit:
            self.samples.append(s)

    # ---- finish ----
    def finish_and_exit(self):
        sys.exit(self.finish())

    def finish(self):
        wall = time.time() - self.t0
        cov = dict(self.cov)
        cov["samples"] = self.samples or ["(none recorded)"]
        cov["exhaustive"] = bool(self.exhaustive)
        if self.notes:
            cov["notes"] = self.notes
        if self.known_hits:
            cov["known_findings_reproduced"] = sorted(self.known_hits)
        ev = {"property_id": self.pid, "tier": self.tier, "seed": self.seed, "level": self.level,
              "coverage": cov, "assumptions": self.assumptions, "wall_s": round(wall, 2),
              "violations": len(self.violations)}
        os.makedirs(os.path.join(VERIF, "evidence"), exist_ok=True)
        with open(os.path.join(VERIF, "evidence", self.pid + ".json"), "w") as f:
            json.dump(ev, f, indent=1, default=str)
        for sig, what in sorted(self.known_hits.items()):
            print("KNOWN-FINDING: property=%s %s [%s]" % (self.pid, what, sig))
        for sig, what, rp in self.violations:
            n = self.sig_seen.get(sig, 1)
            print("VIOLATION property=%s replay=%s" % (self.pid, rp))
            print("  signature=%s (%d case%s): %s" % (sig, n, "" if n == 1 else "s", what))
        for b in self.broken:
            print("BROKEN-CHECK property=%s %s" % (self.pid, b))
        summ = {k: v for k, v in cov.items() if isinstance(v, (int, float, bool))}
        print("%s %s tier=%s wall=%.1fs violations=%d known=%d %s" % (
            "FAIL" if self.violations else ("BROKEN" if self.broken else "OK"), self.pid, self.tier, wall,
            len(self.violations), len(self.known_hits), json.dumps(summ, sort_keys=True)))
        if self.violations:
            return 1
        if self.broken:
            return 2
        return 0


def pmap(fn, jobs, nproc=None, check=None, reserve=5.0):
    """Run fn over jobs in worker processes; yields (job, result) as completed.
    Stops submitting when the check's deadline is reached (exhaustive=False)."""
    nproc = nproc or NPROC
    jobs = list(jobs)
    if not jobs:
        return
    with ProcessPoolExecutor(max_workers=min(nproc, len(jobs))) as ex:
        pending = {}
        it = iter(jobs)
        done_submitting = False

        def submit_more():
            nonlocal done_submitting
            while not done_submitting and len(pending) < 2 * nproc:
                if check is not None and check.out_of_time(reserve):
                    done_submitting = True
                    break
                try:
                    j = next(it)
                except StopIteration:
                    done_submitting = True
                    break
                pending[ex.submit(fn, j)] = j
        submit_more()
        while pending:
            for fut in as_completed(list(pending)):
                j = pending.pop(fut)
                try:
                    r = fut.result()
                except Exception as e:      # worker crashed: surface, do not hide
                    r = {"worker_exception": "%s: %s" % (type(e).__name__, e), "tb": traceback.format_exc()}
                if check is not None and isinstance(r, dict) and r.get("timed_out"):
                    check.exhaustive = False
                    check.notes.append("time limit reached inside %s: bound %s completed" % (j.get("tag") if isinstance(j, dict) else j,
                                                                                          (r.get("summary") or {}).get("bound")))
                yield j, r
                submit_more()
                break
