"""Emit <scanner>.l + reference tables for a pack of rule-set groups, build it
with the flex under test and run the lock-step driver (csrc/vf_driver.h)."""
import json, os, subprocess, shutil, tempfile, time
from . import regex as R, refsem

VERIF = os.path.dirname(os.path.dirname(os.path.abspath(__file__)))
CSRC = os.path.join(VERIF, "csrc")
SCRATCH_ROOT = os.environ.get("VERIF_SCRATCH", "/var/tmp")

ENV = dict(os.environ, LC_ALL="C")
for _k in ("M4", "POSIXLY_CORRECT", "MALLOC_PERTURB_"):
    ENV.pop(_k, None)


class Rule:
    """One rule.  scs: None (unqualified), '*' or list of condition names.
    text overrides the rendering of head/trail (for spelling variants)."""

    def __init__(self, head, trail=None, scs=None, bol=False, eol=False, text=None, action="{ }",
                 eof=False):
        self.head, self.trail, self.scs, self.bol, self.eol = head, trail, scs, bol, eol
        self.text, self.action, self.eof = text, action, eof

    def full_ast(self):
        t = self.trail
        if self.eol:
            t = R.lit(10) if t is None else R.cat(t, R.lit(10))
        return self.head if t is None else R.cat(self.head, t)

    def trail_ast(self):
        if self.eol:
            return R.lit(10) if self.trail is None else R.cat(self.trail, R.lit(10))
        return self.trail

    def pattern_text(self, **kw):
        if self.text is not None:
            return self.text
        s = ("^" if self.bol else "") + R.render(self.head, **kw)
        if self.trail is not None:
            s += "/" + R.render(self.trail, **kw)
        if self.eol:
            s += "$"
        return s


class Group:
    """An independent rule set: its conditions [(name, exclusive)], its rules,
    the condition the driver enters, and the bounded input set."""

    def __init__(self, conds, rules, enter, alphabet, maxlen, extras=(), label=""):
        self.conds, self.rules, self.enter = conds, rules, enter
        self.alphabet, self.maxlen, self.extras, self.label = bytes(alphabet), maxlen, list(extras), label


class Pack:
    def __init__(self, groups, options=(), defs=(), prologue=""):
        self.groups = groups
        self.options = list(options)
        self.defs = list(defs)            # (name, text) definitions
        self.prologue = prologue
        # global numbering
        self.conds = [("INITIAL", False)]
        self.rules = []                    # (group index, Rule)
        for gi, g in enumerate(groups):
            for c in g.conds:
                if c[0] != "INITIAL":
                    self.conds.append(c)
            for r in g.rules:
                self.rules.append((gi, r))
        self.scindex = {c[0]: i for i, c in enumerate(self.conds)}
        if len(self.scindex) != len(self.conds):
            raise ValueError("duplicate start condition names")

    def numbered_rules(self):
        """[(rule number, group index, Rule)] for non-EOF rules, flex numbering."""
        out, n = [], 0
        for gi, r in self.rules:
            if r.eof:
                continue
            n += 1
            out.append((n, gi, r))
        return out

    def active(self, sc_idx, bol):
        name, excl = self.conds[sc_idx]
        res = []
        for n, gi, r in self.numbered_rules():
            if r.scs is None:
                ok = not excl
            elif r.scs == '*':
                ok = True
            else:
                ok = name in r.scs
            if ok and (bol or not r.bol):
                res.append((n, r))
        return res


def _carr(name, ctype, vals, per=24):
    vals = list(vals)
    if not vals:
        vals = [0]
    lines = []
    for i in range(0, len(vals), per):
        lines.append(",".join(str(v) for v in vals[i:i + per]))
    return "static const %s %s[] = {\n%s\n};\n" % (ctype, name, ",\n".join(lines))


def emit_tables(pack, knobs=None):
    """Reference DFAs for every (condition, bol) + per-rule head/trail DFAs."""
    knobs = dict(knobs or {})
    sets = set()
    for n, gi, r in pack.numbered_rules():
        R.sets_of(r.full_ast(), sets)
    for g in pack.groups:
        for b in g.alphabet:
            sets.add(frozenset([b]))
    part = refsem.partition(sets)
    cls, ncls, reps = part
    out = []
    out.append('#include "reftypes.h"\n')
    out.append("#define VF_NCLS %d\n#define VF_NSC %d\n#define VF_NRULES %d\n" %
               (ncls, len(pack.conds), len(pack.numbered_rules())))
    knobs.setdefault("VF_BUDGET_DEFAULT", 0)
    knobs.setdefault("VF_BUDGET_TOTAL", 0)
    knobs.setdefault("VF_BUFSIZES", "0")
    knobs.pop("VF_OPS_PER_ACTION", None)
    sc_args = knobs.pop("sc_args", None) or [0]
    for k, v in sorted(knobs.items()):
        out.append("#ifndef %s\n#define %s %s\n#endif\n" % (k, k, v))
    out.append(_carr("vf_cls", "unsigned char", cls, 32))
    out.append(_carr("vf_sc_args", "int", [pack.scindex[x] if isinstance(x, str) else x for x in sc_args]))
    dfas = []
    cache = {}

    def add(tagged):
        key = tuple((t, a) for t, a in tagged)
        if key in cache:
            return cache[key]
        d = refsem.build_dfa(tagged, part)
        dfas.append(d)
        cache[key] = len(dfas) - 1
        return cache[key]

    start = []
    for si in range(len(pack.conds)):
        row = []
        for bol in (0, 1):
            act = pack.active(si, bol)
            row.append(add([(n, r.full_ast()) for n, r in act]))
        start.append(row)
    rules = ["{-1,-1,0}"]
    for n, gi, r in pack.numbered_rules():
        t = r.trail_ast()
        cont = 2 if r.action.strip() == "|" else 0
        if t is None:
            rules.append("{-1,-1,%d}" % cont)
        else:
            rules.append("{%d,%d,%d}" % (add([(0, r.head)]), add([(0, t)]), 1 | cont))
    rules.append("{-1,-1,0}")   # default rule
    decl = []
    for i, d in enumerate(dfas):
        tr = [t for row in d.trans for t in row]
        ao, al = [0], []
        for a in d.acc:
            al += list(a)
            ao.append(len(al))
        out.append(_carr("vf_tr_%d" % i, "short", tr))
        out.append(_carr("vf_ao_%d" % i, "int", ao))
        out.append(_carr("vf_al_%d" % i, "short", al))
        decl.append("{%d,vf_tr_%d,vf_ao_%d,vf_al_%d}" % (len(d.trans), i, i, i))
    out.append("static const vf_dfa vf_dfas[] = {\n%s\n};\n" % ",\n".join(decl))
    out.append("static const short vf_start[VF_NSC][2] = {\n%s\n};\n" %
               ",\n".join("{%d,%d}" % tuple(r) for r in start))
    out.append("static const vf_rule vf_rules[] = {\n%s\n};\n" % ",".join(rules))
    gdecl = []
    for gi, g in enumerate(pack.groups):
        out.append(_carr("vf_ga_%d" % gi, "unsigned char", g.alphabet, 32))
        ex = []
        for e in g.extras:
            ex += [len(e) & 255, len(e) >> 8] + list(e)
        out.append(_carr("vf_gx_%d" % gi, "unsigned char", ex, 32))
        gdecl.append("{%d,%d,%d,vf_ga_%d,%d,vf_gx_%d,%d}" % (
            pack.scindex[g.enter], g.maxlen, len(g.alphabet), gi, len(g.extras), gi, gi))
    out.append("static const vf_group vf_groups[] = {\n%s\n};\n" % ",\n".join(gdecl))
    stats = {"ref_dfas": len(dfas), "ref_states": sum(len(d.trans) for d in dfas), "ncls": ncls}
    return "".join(out), stats, dfas, part, start


PRE_ACTION = 'vf_act(yy_act, yytext, (long)yyleng, yystart(), yylineno, yyatbol());'


PRE_ACTION_C99 = ('vf_act(yy_act, yyget_text(yyscanner), (long)yyget_leng(yyscanner), yystart(yyscanner), '
                  'yyget_lineno(yyscanner), yyatbol(yyscanner));')


def emit_spec(pack, render_kw=None, tables_name="vf_tables.h", driver="vf_driver.h", api="NR"):
    render_kw = render_kw or {}
    L = []
    opts = ([] if "yywrap" in pack.options else ["noyywrap"]) + [o for o in pack.options if o != "yywrap"]
    if api == "C99":
        # emit must come first: it selects the back end the other options are interpreted for
        opts = ['emit="c99"'] + [o for o in opts if not o.startswith("emit")] + ["noyyread", "noyypanic"]
        if "VF_DEFAULT_INPUT" in "".join(getattr(pack, "cdefs", ())):
            opts.remove("noyyread")
    L.append("%option " + " ".join(opts))
    L.append('%%option pre-action="%s"' % (PRE_ACTION_C99 if api == "C99" else PRE_ACTION))
    if not getattr(pack, "no_user_init", False):
        L.append('%%option user-init="%s"' % ("yybegin(vf_cur_sc, yyscanner);" if api == "C99" else "yybegin(vf_cur_sc);"))
    L.append("%{")
    L.append('#include "vf_pre.h"')
    L.append("static int vf_cur_sc;")
    L.append("#define VF_OPS_PER_ACTION %s" % getattr(pack, "ops_per_action", 1))
    if pack.prologue:
        L.append(pack.prologue)
    L.append("%}")
    for name, text in pack.defs:
        L.append("%s %s" % (name, text))
    for name, excl in pack.conds[1:]:
        L.append("%s %s" % ("%x" if excl else "%s", name))
    L.append("%%")
    pack.line2group = {}
    pack.line2rule = {}
    _rn = 0
    for gi, r in pack.rules:
        if not r.eof:
            _rn += 1
        pack.line2group[sum(x.count("\n") + 1 for x in L) + 1] = gi
        pack._cur_rule = _rn if not r.eof else None
        pre = ""
        if r.scs == '*':
            pre = "<*>"
        elif r.scs is not None:
            pre = "<" + ",".join(r.scs) + ">"
        act = "{ vf_body(); }" if r.action.strip() == "{ }" else r.action
        body = "<<EOF>> %s" % act if r.eof else "%s %s" % (r.pattern_text(**render_kw), act)
        style = getattr(r, "scope_style", "prefix")
        if getattr(r, "scope_open", None):
            # several rules inside one <S>{ } scope: the scope supplies the conditions of the rules that carry no list of their own
            # (emit_prefix False); a rule's own list (prefix_text) adds to it - nested lists accumulate - for that rule only
            L.append("<" + ",".join(r.scope_open) + ">{")
        if getattr(r, "scope_open", None) or getattr(r, "in_scope", False):
            pack.line2group[sum(x.count("\n") + 1 for x in L) + 1] = gi
            pack.line2rule[sum(x.count("\n") + 1 for x in L) + 1] = pack._cur_rule
            L.append((getattr(r, "prefix_text", pre) if getattr(r, "emit_prefix", True) else "") + body)
            if getattr(r, "scope_close", False):
                L.append("}")
        elif style == "scope" and pre:
            L.append(pre + "{")
            pack.line2group[sum(x.count("\n") + 1 for x in L) + 1] = gi
            pack.line2rule[sum(x.count("\n") + 1 for x in L) + 1] = pack._cur_rule
            L.append(body)
            L.append("}")
        elif style == "nested" and r.scs not in (None, "*") and len(r.scs) > 1:
            for name in r.scs:
                L.append("<%s>{" % name)
            pack.line2group[sum(x.count("\n") + 1 for x in L) + 1] = gi
            pack.line2rule[sum(x.count("\n") + 1 for x in L) + 1] = pack._cur_rule
            L.append(body)
            for name in r.scs:
                L.append("}")
        else:
            pack.line2rule[sum(x.count("\n") + 1 for x in L) + 1] = pack._cur_rule
            L.append(pre + body)
    L.append("%%")
    L.append('#include "%s"' % tables_name)
    L.append('#include "refscan.h"')
    L.append('#include "%s"' % getattr(pack, "driver", driver))
    return "\n".join(L) + "\n"


DRIVER_TIME_LIMIT = int(os.environ.get("VERIF_DRIVER_S", "110" if os.environ.get("VERIF_TIER_NOW", "quick") == "quick" else "1500"))


class BuildFailure(Exception):
    def __init__(self, stage, rc, stderr, workdir):
        Exception.__init__(self, "%s failed (rc=%s)" % (stage, rc))
        self.stage, self.rc, self.stderr, self.workdir = stage, rc, stderr, workdir


def run_flex(flex, args, cwd, timeout=120):
    p = subprocess.run([flex.exe] + args, cwd=cwd, env=ENV, stdin=subprocess.DEVNULL,
                       stdout=subprocess.PIPE, stderr=subprocess.PIPE, timeout=timeout)
    return p.returncode, p.stdout, p.stderr.decode("latin-1")


def compile_scanner(workdir, src, exe, api="NR", defs=(), san=False, cxx=False, extra=(), flex=None, timeout=300):
    cc = "g++" if cxx else "gcc"
    cmd = [cc, "-w", "-O0" if not san else "-O1", "-DVF_API_" + api, "-I" + CSRC, "-I."]
    if flex is not None:
        cmd.append("-I" + flex.incdir)
    if san:
        cmd += ["-g", "-fsanitize=address,undefined", "-fno-sanitize-recover=undefined", "-fno-omit-frame-pointer"]
    cmd += ["-D" + d for d in defs] + list(extra) + ["-o", exe, src]
    p = subprocess.run(cmd, cwd=workdir, env=ENV, stdout=subprocess.PIPE, stderr=subprocess.PIPE, timeout=timeout)
    return p.returncode, p.stderr.decode("latin-1")


def run_pack(flex, pack, workdir, name="s", flex_args=(), api="NR", defs=(), knobs=None, san=False,
             render_kw=None, driver_args=(), timeout=600, keep=True):
    """Generate, compile and run one pack.  Returns dict(summary=..., viols=[...],
    flex_stderr=..., stats=...).  Raises BuildFailure if flex or the compiler
    refuses (the caller decides whether that is a violation)."""
    os.makedirs(workdir, exist_ok=True)
    tables, stats, dfas, part, start = emit_tables(pack, knobs)
    tn = name + "_tables.h"
    with open(os.path.join(workdir, tn), "w") as f:
        f.write(tables + getattr(pack, "extra_tables", ""))
    pack.cdefs = list(defs)
    pack.ops_per_action = (knobs or {}).get("VF_OPS_PER_ACTION", 1)
    pack.no_user_init = "VF_BEGIN_OUTSIDE" in (knobs or {}) or getattr(pack, "driver", "") == "vf_bufdriver.h"
    spec = emit_spec(pack, render_kw, tables_name=tn, api=api)
    lpath = os.path.join(workdir, name + ".l")
    with open(lpath, "w") as f:
        f.write(spec)
    cfile = name + (".cc" if api == "CXX" else ".c")
    rc, out, err = run_flex(flex, list(flex_args) + ["-o", cfile, name + ".l"], workdir)
    if rc != 0:
        raise BuildFailure("flex", rc, err, workdir)
    rc, cerr = compile_scanner(workdir, cfile, name + ".exe", api=api, defs=defs, san=san,
                               cxx=(api == "CXX"), flex=flex)
    if rc != 0:
        raise BuildFailure("cc", rc, cerr, workdir)
    res = run_driver(workdir, name + ".exe", driver_args, timeout)
    res["flex_stderr"] = err
    res["stats"] = stats
    res["spec"] = lpath
    return res


def run_driver(workdir, exe, driver_args=(), timeout=600):
    outp = os.path.join(workdir, exe + ".out")
    env = dict(ENV, ASAN_OPTIONS="detect_leaks=0:abort_on_error=0", UBSAN_OPTIONS="print_stacktrace=1")
    t = time.time()
    try:
        p = subprocess.run([os.path.join(workdir, exe), "-o", outp] + list(driver_args), cwd=workdir, env=env,
                           stdin=subprocess.DEVNULL, stdout=subprocess.PIPE, stderr=subprocess.PIPE, timeout=timeout)
        rc, stderr = p.returncode, p.stderr.decode("latin-1")
    except subprocess.TimeoutExpired:
        rc, stderr = -999, "timeout"
    summary, viols, hard = None, [], None
    if os.path.exists(outp):
        for line in open(outp, errors="replace"):
            line = line.strip()
            if not line.startswith("{"):
                continue
            try:
                o = json.loads(line)
            except ValueError:
                continue
            if "summary" in o:
                summary = o
            elif "hard_error" in o:
                hard = o["hard_error"]
            else:
                viols.append(o)
    return {"rc": rc, "summary": summary, "viols": viols, "hard_error": hard, "stderr": stderr[-4000:],
            "wall": time.time() - t}


def mkscratch(tag):
    import re as _re
    return tempfile.mkdtemp(prefix="flexverif.%s." % _re.sub(r"[^A-Za-z0-9_.+-]", "_", str(tag))[:40], dir=SCRATCH_ROOT)


# ---------------------------------------------------------------- pooled jobs

def _read(p):
    try:
        return open(p, errors="replace").read()
    except OSError:
        return ""


def run_groups_job(job):
    """Worker: build one pack and run it; on violations confirm each failing
    group alone (unpacked) and attach the minimal spec for the replay file.
    job keys: groups, options, defs, prologue, flex_args, api, cdefs, knobs,
    driver_args, render_kw, san, tag, flavour."""
    from . import build
    flex = build.get_flex(job.get("flavour", "plain"))
    wd = mkscratch(job.get("tag", "job"))
    out = {"tag": job.get("tag"), "ngroups": len(job["groups"])}
    try:
        pack = Pack(job["groups"], job.get("options", ()), job.get("defs", ()), job.get("prologue", ""))
        if job.get("driver"):
            pack.driver = job["driver"]
        pack.extra_tables = job.get("extra_tables", "")
        kw = dict(flex_args=job.get("flex_args", ()), api=job.get("api", "NR"), defs=job.get("cdefs", ()),
                  knobs=job.get("knobs"), san=job.get("san", False), render_kw=job.get("render_kw"),
                  driver_args=list(job.get("driver_args", ())) + ["-T", str(int(job.get("time_limit", DRIVER_TIME_LIMIT)))],
                  timeout=job.get("timeout", DRIVER_TIME_LIMIT + 120))
        try:
            res = run_pack(flex, pack, wd, **kw)
        except BuildFailure as e:
            out["build_failure"] = {"stage": e.stage, "rc": e.rc, "stderr": e.stderr[-3000:],
                                    "spec": _read(os.path.join(wd, "s.l"))}
            return out
        if res["summary"] and res["summary"].get("timed_out"):
            out["timed_out"] = True
        out.update(summary=res["summary"], rc=res["rc"], hard_error=res["hard_error"], stderr=res["stderr"][-2000:],
                   stats=res["stats"], flex_stderr=res["flex_stderr"][-2000:], wall=res["wall"])
        # flex warnings mapped back to groups through the line numbers of their rules
        warned = {}
        import re as _re
        for m in _re.finditer(r"^[^:\n]*:(\d+): warning, (.*)$", res["flex_stderr"], _re.M):
            gi = pack.line2group.get(int(m.group(1)))
            if gi is not None:
                warned.setdefault(gi, []).append(m.group(2))
        out["warned"] = warned
        if job.get("wide"):
            # declarations of the generated tables (for the table-size guards of the wide-table families)
            try:
                out["scanner_head"] = "\n".join(l for l in open(os.path.join(wd, "s.c"), errors="replace") if l.startswith("static const") and "[" in l)[:20000]
            except OSError:
                out["scanner_head"] = ""
        if res["summary"] is None:
            out["spec"] = _read(os.path.join(wd, "s.l"))
            out["tables"] = _read(os.path.join(wd, "s_tables.h"))
        viols = []
        seen_groups = set()
        for v in res["viols"]:
            gi = v.get("group", 0)
            v["label"] = job["groups"][gi].label
            if gi in seen_groups:
                continue
            seen_groups.add(gi)
            if len(seen_groups) > 6:
                continue
            # confirm alone
            wd2 = os.path.join(wd, "g%d" % gi)
            alone = [job["groups"][gi]]
            if not alone[0].rules:            # a group that only enters another group's condition: keep its owner
                owner = [g for g in job["groups"] if alone[0].enter in [c[0] for c in g.conds] or (g.rules and alone[0].enter == "INITIAL")]
                alone = (owner[:1] or job["groups"][:1]) + alone
            single = Pack(alone, job.get("options", ()), job.get("defs", ()), job.get("prologue", ""))
            if job.get("driver"):
                single.driver = job["driver"]
            single.extra_tables = job.get("extra_tables", "")
            try:
                r2 = run_pack(flex, single, wd2, **kw)
                v["confirmed"] = bool(r2["viols"]) or r2["summary"] is None
                v["alone"] = r2["viols"][:2]
            except BuildFailure as e:
                v["confirmed"] = False
                v["alone_build_failure"] = e.stderr[-1000:]
            v["spec"] = _read(os.path.join(wd2, "s.l"))
            v["tables"] = _read(os.path.join(wd2, "s_tables.h"))
            v["cmd"] = {"flex_args": list(job.get("flex_args", ())), "api": job.get("api", "NR"),
                        "cdefs": list(job.get("cdefs", ())), "san": job.get("san", False),
                        "driver_args": list(job.get("driver_args", ()))}
            viols.append(v)
        out["viols"] = viols
        out["nviol_groups"] = len(seen_groups)
        return out
    finally:
        shutil.rmtree(wd, ignore_errors=True)


def replay_case(flex, rdir):
    """Re-run a saved harness case (spec.l + tables) against the current tree.
    Returns (still_fails, text)."""
    case = json.load(open(os.path.join(rdir, "case.json")))
    cmd = case.get("cmd", {})
    wd = mkscratch("replay")
    try:
        shutil.copy(os.path.join(rdir, "s.l"), wd)
        shutil.copy(os.path.join(rdir, "s_tables.h"), wd)
        api = cmd.get("api", "NR")
        cfile = "s.cc" if api == "CXX" else "s.c"
        rc, out, err = run_flex(flex, list(cmd.get("flex_args", [])) + ["-o", cfile, "s.l"], wd)
        if rc != 0:
            return True, "flex failed: " + err
        rc, cerr = compile_scanner(wd, cfile, "s.exe", api=api, defs=cmd.get("cdefs", ()), san=cmd.get("san", False),
                                   cxx=(api == "CXX"), flex=flex)
        if rc != 0:
            return True, "compile failed: " + cerr[-2000:]
        res = run_driver(wd, "s.exe", cmd.get("driver_args", ()))
        bad = bool(res["viols"]) or res["summary"] is None
        return bad, json.dumps({"summary": res["summary"], "viols": res["viols"][:3], "stderr": res["stderr"][-500:]})
    finally:
        shutil.rmtree(wd, ignore_errors=True)


def harness_own_error(bf):
    """True if a compile failure is located in the harness's own headers."""
    import re
    if bf.get("stage") != "cc":
        return False
    m = re.search(r"^(\S+?):\d+:\d+: error", bf.get("stderr", ""), re.M)
    return bool(m and "/csrc/" in m.group(1))


# ---------------------------------------------------------------- action text

OP_LESS, OP_UNPUT, OP_INPUT1, OP_INPUT2, OP_INPUT3, OP_MORE, OP_REJECT, OP_BEGIN, OP_PUSH, OP_POP, OP_TOP, \
    OP_SETBOL, OP_RETURN, OP_SETLINE = range(1, 15)


def opmask(*ops):
    m = 0
    for o in ops:
        m |= 1 << o
    return m


def ops_action(ops, api="NR", less3=False):
    """Action text performing the operation the explorer chooses.  Only the
    enabled operations appear textually (flex enables yymore/yyreject support
    by finding their names in the actions)."""
    only = "yyscanner" if api == "R" else ""
    last = ", yyscanner" if api in ("R", "C99") else ""
    inp = "yyinput(%s)" % only
    one_in = "{ int vf_c = %s; vf_did_input(vf_c, yylineno); }" % inp
    cases = {
        # less3: yyless() called from a function of section 3 (the skeleton redefines yyless() "so it works in section 3 code")
        OP_LESS: ("{ int vf_k = vf_arg_less((long)yyleng); vf_less3(vf_k%s); vf_did_less(vf_k, yytext, (long)yyleng, yylineno); } break;" % last if less3 else
                  "{ int vf_k = vf_arg_less((long)yyleng); yyless(vf_k); vf_did_less(vf_k, yytext, (long)yyleng, yylineno); } break;"),
        OP_UNPUT: "{ int vf_c = vf_arg_unput(); yyunput(vf_c); vf_did_unput(vf_c, yytext, (long)yyleng, yylineno); } break;",
        OP_INPUT1: one_in + " break;",
        OP_INPUT2: one_in + " " + one_in + " break;",
        OP_INPUT3: one_in + " " + one_in + " " + one_in + " break;",
        OP_MORE: "yymore(); vf_did_more(); break;",
        OP_REJECT: "vf_will_reject(); yyreject(); break;",
        OP_BEGIN: "{ int vf_s = vf_arg_sc(); yybegin(vf_s); vf_did_begin(vf_s, yystart()); } break;",
        OP_PUSH: "{ int vf_s = vf_arg_sc(); yy_push_state(vf_s%s); vf_did_push(vf_s, yystart()); } break;" % last,
        OP_POP: "vf_will_pop(); yy_pop_state(%s); vf_did_pop(yystart()); break;" % only if api != "C99" else
                "vf_will_pop(); yy_pop_state(yyscanner); vf_did_pop(yystart()); break;",
        OP_TOP: ("vf_did_top(yy_top_state(%s)); break;" % only) if api != "C99" else "vf_did_top(yy_top_state(yyscanner)); break;",
        OP_SETBOL: "{ int vf_v = vf_choose(2, 2); yysetbol(vf_v); vf_did_setbol(vf_v, yyatbol()); } break;",
        OP_RETURN: "vf_did_return(); return 1;",
        OP_SETLINE: ("{ int vf_v = vf_arg_line(); yylineno = vf_v; vf_did_setline(vf_v, yylineno); } break;" if api == "NR" else
                     "{ int vf_v = vf_arg_line(); yyset_lineno(vf_v, yyscanner); vf_did_setline(vf_v, yyget_lineno(yyscanner)); } break;"),
    }
    L = ["{ int vf_i; vf_body(); for (vf_i = 0; vf_i < VF_OPS_PER_ACTION; vf_i++) { int vf_o = vf_op((long)yyleng); if (!vf_o) break;",
         "  switch (vf_o) {"]
    for o in sorted(ops):
        L.append("  case %d: %s" % (o, cases[o]))
    L.append("  default: break; } } }")
    return "\n".join(L)
