"""Pattern ASTs with a directly defined meaning, and renderers to flex syntax.

The AST never goes through a parser: patterns are generated as trees, their
language is defined by refsem.py, and render() writes them in flex syntax in
one of several spellings.  Tuples are used so that ASTs are hashable:

  ('lit', b)            one byte
  ('set', frozenset)    one byte out of a set (classes, '.', negated classes)
  ('cat', (x, y, ...))  concatenation
  ('alt', (x, y, ...))  alternation
  ('star', x) ('plus', x) ('opt', x)
  ('rep', x, n, m)      n..m copies, m None = unbounded
"""

ALL = frozenset(range(256))
NL = 10
DOT = frozenset(ALL - {NL})


def lit(c):
    return ('lit', c if isinstance(c, int) else ord(c))


def cset(s):
    return ('set', frozenset(s))


def cat(*xs):
    return ('cat', tuple(xs))


def alt(*xs):
    return ('alt', tuple(xs))


def star(x):
    return ('star', x)


def plus(x):
    return ('plus', x)


def opt(x):
    return ('opt', x)


def rep(x, n, m):
    return ('rep', x, n, m)


def string(s):
    if isinstance(s, str):
        s = s.encode('latin-1')
    if len(s) == 1:
        return lit(s[0])
    return cat(*[lit(b) for b in s])


def sets_of(ast, acc=None):
    """All byte sets mentioned in an AST (for the byte partition)."""
    if acc is None:
        acc = set()
    k = ast[0]
    if k == 'lit':
        acc.add(frozenset([ast[1]]))
    elif k == 'set':
        acc.add(ast[1])
    elif k in ('cat', 'alt'):
        for x in ast[1]:
            sets_of(x, acc)
    else:
        sets_of(ast[1], acc)
    return acc


def nops(ast):
    k = ast[0]
    if k in ('lit', 'set'):
        return 0
    if k in ('cat', 'alt'):
        return len(ast[1]) - 1 + sum(nops(x) for x in ast[1])
    return 1 + nops(ast[1])


def can_match_nl(ast):
    k = ast[0]
    if k == 'lit':
        return ast[1] == NL
    if k == 'set':
        return NL in ast[1]
    if k in ('cat', 'alt'):
        return any(can_match_nl(x) for x in ast[1])
    return can_match_nl(ast[1])


def nullable(ast):
    k = ast[0]
    if k in ('lit', 'set'):
        return False
    if k == 'cat':
        return all(nullable(x) for x in ast[1])
    if k == 'alt':
        return any(nullable(x) for x in ast[1])
    if k in ('star', 'opt'):
        return True
    if k == 'plus':
        return nullable(ast[1])
    if k == 'rep':
        return ast[2] == 0 or nullable(ast[1])
    raise ValueError(k)


def fixed_len(ast):
    """Length of every string of the language if it is unique, else None."""
    k = ast[0]
    if k in ('lit', 'set'):
        return 1
    if k == 'cat':
        t = 0
        for x in ast[1]:
            n = fixed_len(x)
            if n is None:
                return None
            t += n
        return t
    if k == 'alt':
        ns = {fixed_len(x) for x in ast[1]}
        return ns.pop() if len(ns) == 1 and None not in ns else None
    if k == 'rep' and ast[2] == ast[3]:
        n = fixed_len(ast[1])
        return None if n is None else n * ast[2]
    return None


# ---------------------------------------------------------------- rendering

_PLAIN = set(b"abcdefghijklmnopqrstuvwxyzABCDEFGHIJKLMNOPQRSTUVWXYZ0123456789_")


def esc_byte(b, style='hex'):
    """A byte as a flex pattern atom (outside a class)."""
    if b in _PLAIN and style != 'allhex':
        return chr(b)
    if style == 'octal':
        return "\\%03o" % b
    return "\\x%02x" % b


def esc_in_class(b):
    if b in _PLAIN:
        return chr(b)
    return "\\x%02x" % b


def render_set(s, negate_if_shorter=True):
    s = frozenset(s)
    if s == DOT:
        return "."
    if negate_if_shorter and len(s) > 128:
        comp = ALL - s
        if not comp:
            return "[\\x00-\\xff]"
        return "[^" + _ranges(comp) + "]"
    if not s:
        return "[a]{-}[a]"
    return "[" + _ranges(s) + "]"


def _ranges(s):
    out = []
    xs = sorted(s)
    i = 0
    while i < len(xs):
        j = i
        while j + 1 < len(xs) and xs[j + 1] == xs[j] + 1:
            j += 1
        if j - i >= 2:
            out.append(esc_in_class(xs[i]) + "-" + esc_in_class(xs[j]))
        else:
            for k in range(i, j + 1):
                out.append(esc_in_class(xs[k]))
        i = j + 1
    return "".join(out)


# precedence levels: 0 alt, 1 cat, 2 postfix, 3 atom
def render(ast, full_parens=False, lit_style='hex'):
    """AST -> flex pattern text.  full_parens=False writes the minimal
    parentheses the documented precedence (postfix > concatenation > '|')
    requires, so that precedence handling itself is exercised."""
    return _r(ast, 0, full_parens, lit_style)


def _r(ast, ctx, fp, ls):
    k = ast[0]
    if k == 'lit':
        return esc_byte(ast[1], ls)
    if k == 'set':
        return render_set(ast[1])
    if k == 'cat':
        s = "".join(_r(x, 1 if not fp else 3, fp, ls) for x in ast[1])
        # nested cat inside cat must be parenthesised to keep the tree shape irrelevant: cat is associative
        return "(" + s + ")" if (ctx > 1 or fp) else s
    if k == 'alt':
        s = "|".join(_r(x, 0 if not fp else 3, fp, ls) for x in ast[1])
        return "(" + s + ")" if (ctx > 0 or fp) else s
    inner = _r(ast[1], 3 if ast[1][0] not in ('lit', 'set') else 2, fp, ls)
    if ast[1][0] in ('star', 'plus', 'opt', 'rep') and not inner.startswith("("):
        inner = "(" + inner + ")"
    if k == 'star':
        s = inner + "*"
    elif k == 'plus':
        s = inner + "+"
    elif k == 'opt':
        s = inner + "?"
    else:
        n, m = ast[2], ast[3]
        if m is None:
            s = inner + "{%d,}" % n
        elif n == m:
            s = inner + "{%d}" % n
        else:
            s = inner + "{%d,%d}" % (n, m)
    return "(" + s + ")" if fp else s
