"""./vf replay <dir>: re-run one recorded violation against the current tree."""
import json, os, sys
from . import build, harness

def main(path):
    if os.path.isfile(path):
        path = os.path.dirname(path)
    case = json.load(open(os.path.join(path, "case.json")))
    try:
        flex = build.get_flex(case.get("flavour", "plain"))
    except build.BuildError as e:
        print("flex does not build:", e)
        return 1
    if os.path.exists(os.path.join(path, "s.l")) and os.path.exists(os.path.join(path, "s_tables.h")):
        bad, text = harness.replay_case(flex, path)
        print(text)
        print("REPRODUCED" if bad else "not reproduced")
        return 1 if bad else 0
    if case.get("replay"):
        import importlib
        r = case["replay"]
        mod = importlib.import_module(r["module"])
        args = r["args"]
        def tup(x):
            return tuple(tup(i) for i in x) if isinstance(x, list) else x
        res = getattr(mod, r["func"])(tup(args) if r.get("tuple", True) else args)
        found = res.get("msgs") or res.get("problems") or res.get("viol") or res.get("violations") or []
        for f in found:
            print("  ", f)
        print("REPRODUCED" if found else "not reproduced")
        return 1 if found else 0
    if os.path.exists(os.path.join(path, "run.sh")):
        import subprocess
        rc = subprocess.call(["sh", os.path.join(path, "run.sh"), flex.exe, flex.incdir])
        print("REPRODUCED" if rc else "not reproduced")
        return 1 if rc else 0
    print("no replayable artefact in", path, "- see case.json:", case.get("what"))
    return 2
