"""./vf replay <dir>: re-run one recorded violation against the current tree."""
import json, os, sys
from . import build, harness

def main(path):
    if os.path.isfile(path):
        path = os.path.dirname(path)
    case = json.load(open(os.path.join(path, "case.json")))
    try:
        flex = build.get_flex(case.get("flavour", "plain"))
    except build.BuildError as e:
        print("flex does not build:", e)
        return 1
    if os.path.exists(os.path.join(path, "s.l")) and os.path.exists(os.path.join(path, "s_tables.h")):
        bad, text = harness.replay_case(flex, path)
        print(text)
        print("REPRODUCED" if bad else "not reproduced")
        return 1 if bad else 0
    if os.path.exists(os.path.join(path, "run.sh")):
        import subprocess
        rc = subprocess.call(["sh", os.path.join(path, "run.sh"), flex.exe, flex.incdir])
        print("REPRODUCED" if rc else "not reproduced")
        return 1 if rc else 0
    print("no replayable artefact in", path, "- see case.json:", case.get("what"))
    return 2
