"""MANIFEST.setup_cmd: build (and cache) the flex under test in both flavours."""
import sys
from . import build

def main():
    for fl in ("plain", "asan"):
        try:
            f = build.get_flex(fl)
            print("built", fl, f.exe, "bootstrap_same=%s" % f.bootstrap_same)
        except build.BuildError as e:
            print("setup: flex does not build (%s): %s" % (fl, e), file=sys.stderr)
            return 0   # checks report this themselves
    return 0

if __name__ == "__main__":
    sys.exit(main())
