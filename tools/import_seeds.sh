#!/bin/sh
# import_seeds.sh <pid> <round>: copy /tmp/seed<round>_<pid>/m* to seeded/<pid>-r<round>m*, remove the agent's worktree
pid=$1; r=$2
for d in /tmp/seed${r}_$pid/m*; do
  [ -d "$d" ] || continue
  n=$(basename $d)
  mkdir -p /verif/seeded/$pid-r${r}$n
  cp -r $d/* /verif/seeded/$pid-r${r}$n/
done
git -C /repo worktree remove --force /tmp/wt${r}_$pid 2>/dev/null
rm -rf /tmp/wt${r}_$pid /tmp/seed${r}_$pid
git -C /repo worktree prune
ls -d /verif/seeded/$pid-r${r}m*
