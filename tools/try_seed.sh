#!/bin/sh
# try_seed.sh <seed dir name> <property ids...>: apply seeded/<name>/patch.diff to /repo, run the quick checks, revert.
name=$1; shift
cd /repo || exit 2
if ! git diff --quiet; then echo "/repo has uncommitted changes"; exit 2; fi
if ! git apply --check /verif/seeded/$name/patch.diff 2>/dev/null; then
  if ! git apply --3way /verif/seeded/$name/patch.diff >/dev/null 2>&1; then echo "PATCH DOES NOT APPLY: $name"; git reset -q --hard HEAD; exit 3; fi
  git reset -q
else
  git apply /verif/seeded/$name/patch.diff
fi
cd /verif
for pid in "$@"; do
  cp /verif/evidence/$pid.json /tmp/try_seed_ev.$$ 2>/dev/null
  out=$(./vf check $pid --tier ${TIER:-quick} 2>&1 | grep -v conda)
  [ -f /tmp/try_seed_ev.$$ ] && mv /tmp/try_seed_ev.$$ /verif/evidence/$pid.json   # evidence/ describes the unchanged tree only
  rc=$?
  echo "$out" | grep -a -E "^(VIOLATION|OK|FAIL|BROKEN)" | head -${LINES_SHOWN:-4}
  echo "$out" | grep -a -E "^  signature" | head -3
done
git -C /repo reset -q --hard HEAD
