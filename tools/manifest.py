#!/usr/bin/env python3
"""Regenerate MANIFEST.json from the table below (one place to edit)."""
import json, os
HERE = os.path.dirname(os.path.dirname(os.path.abspath(__file__)))
PIDS = ["C%02d" % i for i in range(1, 21)]

CHECKS = {
 "C01": dict(category="model_checking", technique="bounded-exhaustive enumeration of pattern ASTs, spellings and rule sets; every input of length <= L plus a transition cover run through yylex() in lock step with an independently built reference DFA",
   text="Every pattern AST up to k operators, every documented spelling (against all 256 bytes), every ordered pair/triple of an overlapping pool and three array-growing rule sets are compiled by the flex under test; for each, all byte strings up to length L over one representative per byte class plus a transition cover of the reference automaton are scanned by the real yylex() and compared token by token (rule, yyleng, yytext) with a reference built from the AST by textbook NFA/DFA construction.",
   note="Reference semantics (vflib/refsem.py) written from the manual; m4/gcc/libc trusted; nullable top-level patterns excluded (loop forever by design).", design="2/C01"),

 "C03": dict(category="model_checking", technique="exhaustive enumeration of environment answers: every composition of the input length as read sizes x buffer sizes x input sources, run through yylex() against the whole-input reference; running-maximum look-ahead oracle for interactive scanners",
   text="For five scanners (backing up, long line tokens, fixed and variable trailing context, ^ rules; plus REJECT and yymore variants) and every input up to length L, every sequence of read sizes (all 2^(n-1) compositions), buffer sizes 1..8 and default, and every source (user routine, stdio fread, interactive getc loop, read(2), yy_scan_string/bytes/buffer) is executed on the real scanner (C non-reentrant, reentrant, c99; compressed, full and fast tables) and compared with the reference token stream; with one byte per request the bytes handed over when each action runs are bounded by the point where the reference DFA can no longer extend the match.",
   note="Reference DFA as for C01; tokens 5x the buffer explored with <= 2 departures from 'all at once' and with 1- and 2-byte reads rather than all compositions.", design="2/C03"),
 "C08": dict(category="model_checking", technique="deviation-bounded depth-first exploration of action-operation histories (yyless/yyunput/yyinput/yymore/return, arguments exhaustive, up to two operations per action) on the real scanner against a deque reference model, iterating the bound 0..k",
   text="Three scanners x %pointer/%array x non-reentrant/reentrant/c99 x yylineno on/off x buffer sizes {default,1,2,3,4}: for every input up to length L every history with at most k operations (k=2 quick, 3 thorough; each argument value enumerated) is executed through yylex(); after every action and every operation yytext, yyleng, the return value of yyinput, yylineno and finally the consumed stream are compared with the model.",
   note="Combinations the manual leaves undefined are not generated (yytext after yyunput under %pointer, yyless below the yymore prefix or after yyunput/yyinput in one action, yymore with yyinput/yyunput in one action); push-back overflow accepted only for explicit buffers <= 8 bytes.", design="2/C08"),

 "C07": dict(category="model_checking", technique="exhaustive enumeration of accept/reject decision vectors (every action's decision is a choice point, unbounded budget) for every input up to length L, visiting order compared with the reference candidate list sorted by (-total length, rule)",
   text="~1000 rule sets (ordered pairs and triples from a pool with ties, optional tails and trailing context; 4-7 rule sets; a NUL rule set) x yyreject()/REJECT/%option reject spellings x non-reentrant/reentrant/c99/%array x -Ce/-C with one-byte reads: every sequence of accept/reject decisions is executed through the real yylex(); each visited (rule, yyleng, yytext) must be the next pair of the reference order and the default rule must follow the last rejection. Generation with -Cf/-CF/-f/-F must be refused with a message; a token longer than the non-growing buffer must end in the documented fatal error.",
   note="Tokens within buffer capacity; reference candidate order computed from the reference DFA's accept sets.", design="2/C07"),
 "C09": dict(category="model_checking", technique="bounded-exhaustive enumeration of newline-capable pattern forms x inputs x operation histories (deviation-bounded DFS), yylineno compared with the model's newline counter at every action and after every operation",
   text="~190 pattern forms that can match a newline through literals, escapes, classes, negated classes, POSIX expressions, {-}/{+}, (?s:.), definitions, trailing context, $ and '|' actions, in non-reentrant/reentrant/c99/-Cf/%array scanners with tiny buffers: for every input over {a,\\n,b} up to length L and every history of yyless/yyunput/yyinput/yymore/return/set-line-number within the deviation bound (and all reject decisions) the line number seen by each action equals 1 + newlines consumed; without %option yylineno a user-set value survives every input and operation.",
   note="'^' with yyless/yyunput not generated; c99 '|' actions are refused by flex itself (m4 error) and left out; per-buffer counts under buffer switching belong to C11.", design="2/C09"),

 "C06": dict(category="model_checking", technique="bounded-exhaustive enumeration of anchored / trailing-context rule sets (every form of 8 heads x 7 trails, alone, against every competitor in both orders, in '|' chains, against each other) x every input up to length L through yylex(), compared with the reference (competition by total length, yyleng in the set of valid splits, resumption after the head)",
   text="~25 000 rule sets per run in -Cem/-B/-I/-Cf/-CFe, reentrant, c99, yylineno, one-byte reads with 1-3 byte buffers, yysetbol and yyinput deviations: rule chosen, yyleng, yytext and the position where scanning resumes are compared at every action with the reference built from the ASTs of r and s; rule sets for which flex prints 'dangerous trailing context' (mapped back through rule line numbers) are excluded as the property says.",
   note="Ambiguous splits without the warning are accepted when valid; nullable heads loop by design and are compared up to the step horizon; the duplicated pre-action of '|' rules with trailing context is recognised and counted, not judged here.", design="2/C06"),

 "C05": dict(category="model_checking", technique="exhaustive enumeration of start-condition declarations x rule-to-condition-list assignments x scope writings (activation), and deviation-bounded DFS over yybegin/push/pop/top/return histories from empty and pre-filled stacks, on the real scanner against a list model",
   text="Activation: every %s/%x declaration of two conditions x every pair of the 9 condition lists (none, <*>, the 7 subsets of {INITIAL,A,B}) x prefix / scope / nested-scope / ^-anchored writings; each spec is scanned in each of its 3 conditions on every input of length <= 2 and the rule that fires is compared with the documented activation function. Stack: every sequence of yybegin/yy_push_state/yy_pop_state/yy_top_state/return within the bound (arguments exhaustive), in non-reentrant, reentrant and c99 scanners, from an empty stack and from stacks filled through the API before the first yylex() to 0,1,24,25,26,49,50,51,101 entries; yystart() and yy_top_state() are compared after every operation and a pop of an empty stack must reach the fatal-error hook.",
   note="Nested scopes read as the union of the enclosing lists; quick tier samples about a third of the 1 300 activation specs by fixed strides, thorough runs all; conditions surviving restart/buffer switches/EOF are checked in C10/C11.", design="2/C05"),

 "C04": dict(category="model_checking", technique="bounded-exhaustive enumeration of NUL/8-bit patterns x inputs over {\\0,\\x80,\\xff,a,b} x all table representations x -I/-B x %pointer/%array x API, one byte per read with 1-3 byte buffers, through yylex() against the reference DFA; refusal table for 8-bit patterns in 7-bit scanners",
   text="Every pattern of <= 1 operator over nine NUL/high-byte atoms (with the competitor a\\0b forcing back-up around NUL) x every input up to length L in all eight table representations (-Cem,-Cm,-Ce,-C,-Cf,-Cfe,-CF,-CFe) x interactive/batch x %pointer/%array x non-reentrant/reentrant/c99, delivered one byte at a time into buffers of 1, 2, 3 bytes and whole; one-operation histories (yyunput('\\0'), yyless over a NUL, yyinput on a NUL, yymore carrying a NUL) and all reject decisions; a 256-rule spec reaching 256 equivalence classes; 7-bit scanners compared on all 7-bit inputs; each 8-bit spelling under -7 / default -Cf / -CF must be refused with a message.",
   note="-8 passed explicitly for full/fast tables (7-bit by default, documented); -I is not combined with full/fast tables (always batch).", design="2/C04"),

 "C10": dict(category="model_checking", engine="buffer-history-driver", technique="depth-first exploration of end-of-input histories on the real scanner (choice points: yywrap's answer, the ending of each <<EOF>> action, yyrestart / new yyin after termination), for every assignment of <<EOF>> rules to three start conditions, against a per-buffer reference model",
   text="For each of the 24 <<EOF>> rule assignments (qualified subsets of {INITIAL,A,B}, one rule or one per condition, with/without a trailing unqualified rule) in non-reentrant, reentrant and c99 scanners with whole, 1- and 2-byte reads (and -Cf/-CFe/-B): every history within the deviation bound in which yywrap stops / points yyin at another source / switches to a new buffer, the <<EOF>> action terminates / pops / assigns yyin / returns, and the caller restarts or assigns yyin after termination.  Checked at every step: all bytes already read are tokenised first, yywrap is consulted exactly when the current source is exhausted, exactly the <<EOF>> rule of the current condition runs exactly once, yylex's return values, the start condition never changes, a new source starts at beginning of line and nothing of either source is lost.",
   note="Undefined uses are not generated (yylex after termination without a new source; a FILE given to an in-memory buffer; unqualified <<EOF>> before qualified ones).", design="2/C10"),
 "C11": dict(category="model_checking", engine="buffer-history-driver", technique="deviation-bounded depth-first exploration of buffer-operation histories (12 API calls between yylex calls with exhaustive arguments, pushes from inside actions, yywrap/EOF answers) on the real scanner against one reference scanner per buffer; directed nesting to depth 37",
   text="Histories with up to 3 (quick) / 4 (thorough) non-default choices over yylex, create+switch, create+push, pop, switch, flush, delete, yy_scan_bytes/string/buffer (good and without the two NULs), yyrestart, the include idiom (push from an action) and yywrap popping/switching, in non-reentrant, reentrant and c99 scanners with whole, 1-, 2- and 3-byte reads, -Cf and reject: every token must be the next token of the current buffer's own content at that buffer's own position and beginning-of-line state; reads must be requested only for the current buffer's source; API return values (NULL for a bad yy_scan_buffer, the buffer returned to by pop) are compared; scan_bytes/string must work on a private copy (the caller's array is overwritten after the call).",
   note="Uses the manual forbids or leaves open are not generated; 18 M executions in the quick tier.", design="2/C11"),

 "C02": dict(category="exploration", technique="exhaustive walk of the configuration lattice table{8} x align x 7/8-bit x -I/-B x %pointer/%array x {C, reentrant, C++, c99} x {in-code, --tables-file} (768 points) for a corpus of rule sets, each supported point compiled and run against the reference token stream (inputs of length <= L + transition cover); refusal table for documented unsupported combinations; 120-600 sizable rule sets through each table packer",
   text="Every lattice point either is refused by flex with a message for a documented reason (full/fast tables with -I, C++ with -CF) or must compile and reproduce, for a corpus of 8-9 rule sets (keywords with back-up, anchors, fixed and variable trailing context, classes, NUL, high bytes, a C-like lexer), the reference token stream on every input up to length L plus the transition cover of each rule set; 27 refusal/acceptance probes (variable trailing context or REJECT with -Cf/-CF/-f/-F, -Cf with -Cm/-CF/-I, -l and -+ conflicts); and 120 (600 thorough) deterministic C-like rule sets, each alone in its own specification, through -CFe/-CF/-Cfe/-Cem/-Cm with their transition covers, to exercise the table packers on sparse states.",
   note="Differential against the reference, so a defect common to all representations is still seen. Serialized tables only for C scanners (the manual documents them for C); c99 points accepted when refused with a message; operations (yyless, yymore, REJECT) across APIs are C07/C08's job.", design="2/C02"),

 "C13": dict(category="exploration", technique="the bounded-exhaustive executions of the other harnesses (inputs x read schedules x operation and buffer histories x APIs x table families) re-run under AddressSanitizer + UndefinedBehaviorSanitizer with an allocation ledger (exact-size blocks, realloc always moves, live-set accounting); valgrind memcheck on a subset",
   text="About 70 scenarios per run (C08 operation histories, C03 read schedules and sources, C04 NUL patterns in all table families, REJECT, start-condition stack with pre-filled depths, buffer histories and nesting to depth 37, C++ class) are repeated with sanitizers; the ledger checks after every normally completed execution that, once the user's own buffers are deleted and yylex_destroy has run, no block is left, and that every pointer given to yyfree/yyrealloc is live; the non-reentrant scanner is destroyed and reused between all executions and must behave as fresh (any stale state shows as a token mismatch).",
   note="Sanitizers and valgrind trusted; MSan not used (needs an instrumented libc); blocks still held when the fatal-error hook fires are not judged; the C++ class runs under ASan without the ledger.", design="2/C13"),
 "C14": dict(category="fault_enumeration", technique="for each scenario a clean run counts the allocation requests N and read requests R; then one run per k <= N with request k failing and one run per j <= R and fault kind (EINTR, EINTR twice, read error, EINTR after a partial fread); each outcome must be the documented one",
   text="Scenarios = {non-reentrant, reentrant, c99} x {user yyread, stdio fread, interactive getc loop, read(2)} x {plain, REJECT} x 4 inputs (including a token that forces buffer growth) x buffer sizes, under ASan with the ledger: an allocation failure must end in yylex_init's error return (ENOMEM/EINVAL) or in the fatal-error hook with a message, never in normal completion, a wrong token or a sanitizer report; EINTR must be retried with the token stream unchanged; a hard read error must reach the fatal-error hook with 'input in flex scanner failed'.",
   note="A user-supplied yyread has no errno protocol, so read faults are injected on the scanner's own paths only; two known findings (getc path does not retry EINTR; EINTR after a partial fread leaves the error indicator set); C++ stream errors are not yet covered.", design="2/C14"),

 "C15": dict(category="model_checking", engine="tables-loader-driver", technique="round trip of serialized tables against the reference token stream for every table representation; independent parse of the file against the documented layout; exhaustive enumeration of load attempts: every truncation length, every damaged magic byte, every single-byte mutation (2 masks) judged by region; all 6 concatenation orders of three prefixed table sets",
   text="For 3-4 rule sets x the 8 table representations x non-reentrant/reentrant (plus REJECT, yylineno and variable trailing context so that every table kind, including ACCLIST, NUL_TRANS, START_STATE_LIST and RULE_CAN_MATCH_EOL, is serialized): vflib/tblfile.py parses the file strictly by the manual's layout (magic, th_hsize/th_ssize, NUL-terminated version and name, flag/width consistency, network byte order, 8-byte padding of header and every table); the scanner with loaded tables must reproduce the reference tokens; yytables_fload must fail (error return or fatal hook, ASan-clean, nothing left allocated) for every proper prefix of the file and every damaged magic byte; a --tables-verify scanner must verify its own file, must still succeed when a byte of padding, version text or th_flags changes and must fail when a table element, table id or the magic number changes (one forked child per mutation); three differently-prefixed sets concatenated in all 6 orders are each found by name and scanned correctly, and everything is released after yytables_destroy + yylex_destroy.",
   note="Arbitrary corruption of a plain tables file is not required to be detected (only truncation / magic); th_hsize, th_ssize and the set name are navigation data and not judged under mutation; one known finding (verify ignores table dimensions).", design="2/C15"),

 "C17": dict(category="model_checking", engine="reference-dfa", technique="exhaustive enumeration of rule sets (ordered pairs and triples from a pool of 28 mutually shadowing patterns, '|'-action variants) with the set of unmatchable rules decided by reachability of priority accepts in the reference DFA, compared with flex's warnings mapped back through line numbers; default-rule warning decided by reachability of an uncovered input",
   text="~1 600 rule sets (quick; all triples from 16 patterns in the thorough tier), 20 per specification under exclusive start conditions: flex must warn 'rule cannot be matched' for exactly the rules that are the first accepting rule of no state reachable by a non-empty string from any (condition, beginning-of-line) start state of the reference DFA, each warning on the line of its rule (also next to '|' actions); -w must silence the warnings and leave the scanner byte-identical; with -s/nodefault, one rule set per specification, the default-rule warning must appear iff some string with no accepted prefix reaches a dead end or the end of input; for rule sets with variable trailing context only 'no false warning' is required.",
   note="Reference DFA from vflib/refsem.py; REJECT rule sets are not in the exact comparison.", design="2/C17"),
}

NOT_YET = "check under construction in this round; will be claimed once it has run end-to-end on the unchanged tree"

def main():
    m = {
     "version": 1,
     "setup_cmd": "python3 -m vflib.setup",
     "hooks": {"guard": "WESTES_FLEX_VERIF",
               "enable": "no source hooks are needed; every seam is a documented scanner hook (noyyread/YY_INPUT, noyyalloc, YY_FATAL_ERROR/noyypanic, pre-action, user-init); the guard name is reserved and unused",
               "baseline_off_cmd": "cd /repo && make -k -j8 check VERBOSE=1",
               "source_commits": [], "add_only": True},
     "engines": [
       {"name": "buffer-history-driver", "path": "csrc/vf_bufdriver.h", "serves_properties": ["C10", "C11", "C13", "C14"],
        "kind_free_text": "generated scanner #included into a driver that sits between yylex() calls and explores API-call histories depth-first with a deviation bound; per-buffer reference scanners, buffer stack and start-condition model"},
       {"name": "reference-dfa", "path": "vflib/refsem.py", "serves_properties": ["C17"],
        "kind_free_text": "explicit-state reachability on the reference DFA built from pattern ASTs (Thompson + subset construction), compared with flex's diagnostics"},
       {"name": "tables-loader-driver", "path": "csrc/vf_tbldriver.h", "serves_properties": ["C15"],
        "kind_free_text": "scanner built with %option tables-file #included into a driver that enumerates load attempts (prefixes, mutations) from memory images, with the allocation ledger; file layout judged by the independent parser vflib/tblfile.py"},
       {"name": "lockstep-harness", "path": "csrc/vf_driver.h", "serves_properties": sorted(k for k in CHECKS if CHECKS[k].get("engine", "lockstep-harness") == "lockstep-harness"),
        "kind_free_text": "generated scanner #included into a driver that enumerates inputs / choice vectors depth-first and compares every action with a reference scanner model (csrc/refscan.h over DFAs from vflib/refsem.py)"},
     ],
     "checks": [],
     "not_applicable": [],
     "notes": "See DESIGN.md. Known findings: known_findings.json.",
    }
    for pid in PIDS:
        c = CHECKS.get(pid)
        if not c:
            m["not_applicable"].append({"property_id": pid, "reason": NOT_YET})
            continue
        m["checks"].append({
          "property_id": pid,
          "quick_cmd": "./vf check %s --tier quick" % pid,
          "thorough_cmd": "./vf check %s --tier thorough" % pid,
          "evidence_file": "/verif/evidence/%s.json" % pid,
          "replay_cmd_template": "./vf replay {path}",
          "engine": c.get("engine", "lockstep-harness"),
          "level_claimed": {"category": c["category"], "text": c["text"], "design_ref": "DESIGN.md section " + c["design"]},
          "level_note": c["note"],
          "technique": c["technique"],
        })
    json.dump(m, open(os.path.join(HERE, "MANIFEST.json"), "w"), indent=1)
    print("checks:", len(m["checks"]), "not_applicable:", len(m["not_applicable"]))

if __name__ == "__main__":
    main()
