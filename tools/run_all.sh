#!/bin/sh
# run_all.sh [quick|thorough] [ids...]: run every registered check sequentially, one summary line each
tier=${1:-quick}; shift
cd /verif || exit 2
ids="$@"
[ -z "$ids" ] && ids=$(python3 -c "import json;print(' '.join(c['property_id'] for c in json.load(open('MANIFEST.json'))['checks']))")
for pid in $ids; do
  start=$(date +%s)
  out=$(./vf check $pid --tier $tier 2>&1); rc=$?
  end=$(date +%s)
  echo "$pid rc=$rc $((end-start))s $(echo "$out" | grep -a -E '^(OK|FAIL|BROKEN)' | cut -c1-160)"
  echo "$out" | grep -a -E '^(VIOLATION|  signature)' | head -6 | cut -c1-300
done
