#!/usr/bin/env python3
"""verify_seeds.py [seed names...] - confirm every seeded change in a scratch worktree of /repo (never in /repo itself):
the patch applies to HEAD, the tree builds (bootstrap comparison included), the repository's test suite still passes
(after 'make -C tests clean', otherwise stale scanners are reused), the demonstration fails with the change and passes
without it.  Writes seeded/<name>/verify.json; the worktree is removed at the end."""
import json, os, re, subprocess, sys, time

VERIF = os.path.dirname(os.path.dirname(os.path.abspath(__file__)))
WT = os.environ.get("VF_VERIFY_WT", "/tmp/wt_verify_seeds")


def sh(cmd, cwd=None, timeout=3600):
    p = subprocess.run(cmd, shell=True, cwd=cwd, stdout=subprocess.PIPE, stderr=subprocess.STDOUT, timeout=timeout)
    return p.returncode, p.stdout.decode("latin-1")


def build(wt):
    rc, out = sh("make -j8 2>&1 | tail -30; make 2>&1 | tail -30", cwd=wt)
    ok = os.path.exists(os.path.join(wt, "src/flex")) and "Error" not in out.split("\n")[-5:].__str__() and "Comparison failure" not in out[-2000:]
    rc2, out2 = sh("make 2>&1 | tail -5", cwd=wt)
    return ("Error" not in out2 and "rror:" not in out2), out[-1500:]


def suite(wt):
    """the repository's suite has no per-test time limit: a test that loops is killed after 10 minutes and reported as a hang"""
    sh("make -C tests clean", cwd=wt)
    p = subprocess.Popen("exec setsid make -k -j8 check > suite.log 2>&1", shell=True, cwd=wt)
    hung = []
    t0 = time.time()
    while p.poll() is None:
        time.sleep(5)
        if time.time() - t0 > 600:
            # kill test programs that are still running (executables of the worktree's tests directory)
            for pid in os.listdir("/proc"):
                if not pid.isdigit():
                    continue
                try:
                    exe = os.readlink("/proc/%s/exe" % pid)
                except OSError:
                    continue
                if exe.startswith(wt + "/tests/"):
                    hung.append(os.path.basename(exe))
                    try:
                        os.kill(int(pid), 9)
                    except OSError:
                        pass
            t0 = time.time() - 480          # give the rest five more minutes, then look again
    out = open(os.path.join(wt, "suite.log"), errors="replace").read()
    d = dict(re.findall(r"# (\w+):\s+(\d+)", out))
    res = {k: int(v) for k, v in d.items()}
    if hung:
        res["hung_tests_killed"] = sorted(set(hung))
    return res


def main():
    names = sys.argv[1:] or sorted(os.listdir(os.path.join(VERIF, "seeded")))
    names = [n for n in names if os.path.isdir(os.path.join(VERIF, "seeded", n))]
    sh("git -C /repo worktree remove --force %s; rm -rf %s; git -C /repo worktree prune" % (WT, WT))
    rc, out = sh("%s/tools/mkworktree.sh %s" % (VERIF, WT))
    if "ready" not in out:
        print("cannot create worktree:", out[-500:])
        return 2
    head = sh("git -C %s rev-parse --short HEAD" % WT)[1].strip()
    try:
        for n in names:
            sd = os.path.join(VERIF, "seeded", n)
            res = {"seed": n, "head": head, "when": time.strftime("%Y-%m-%d %H:%M:%S")}
            t0 = time.time()
            sh("git checkout -q -- . ", cwd=WT)
            rc, out = sh("git apply %s/patch.diff" % sd, cwd=WT)
            if rc != 0:
                rc, out = sh("git apply --3way %s/patch.diff && git reset -q" % sd, cwd=WT)
            res["applies"] = rc == 0
            if rc != 0:
                res["apply_error"] = out[-300:]
                sh("git reset -q --hard HEAD", cwd=WT)
            else:
                ok, log = build(WT)
                res["builds"] = ok
                if ok:
                    rc, out = sh("bash %s/demo.sh %s" % (sd, WT), timeout=1800)
                    res["demo_with_change_rc"] = rc
                    res["demo_with_change_tail"] = out[-400:]
                    res["suite_with_change"] = suite(WT)
                else:
                    res["build_log"] = log
                sh("git checkout -q -- . ", cwd=WT)
                ok, log = build(WT)
                rc, out = sh("bash %s/demo.sh %s" % (sd, WT), timeout=1800)
                res["demo_without_change_rc"] = rc
                if rc != 0:
                    res["demo_without_change_tail"] = out[-400:]
            res["seconds"] = round(time.time() - t0)
            json.dump(res, open(os.path.join(sd, "verify.json"), "w"), indent=1)
            print(n, {k: v for k, v in res.items() if k in ("applies", "builds", "demo_with_change_rc", "demo_without_change_rc", "suite_with_change", "seconds")}, flush=True)
    finally:
        sh("git -C /repo worktree remove --force %s; rm -rf %s; git -C /repo worktree prune" % (WT, WT))
    return 0


if __name__ == "__main__":
    sys.exit(main())
