#!/usr/bin/env python3
"""Print the prompt given to a mutation-seeding sub-agent for one property."""
import json, sys
pid = sys.argv[1]
wt = sys.argv[2]
sd = sys.argv[3] if len(sys.argv) > 3 else '/tmp/seed_' + pid
for l in open('/verif/properties.jsonl'):
    p = json.loads(l)
    if p['id'] == pid:
        break
print(f"""You are helping to evaluate a verification effort for westes/flex (the lexical analyzer generator). Your job is to act as a realistic source of regressions.

You have your own scratch git worktree of the flex repository at {wt} (already configured and built: `cd {wt} && make -j8` rebuilds, `cd {wt} && make -C tests clean && make -k -j8 check` runs the 257-test suite (the clean matters: without it stale test scanners are reused and the suite passes vacuously) in about 15-40 s and prints a summary with '# PASS:' / '# FAIL:' lines). Work ONLY inside {wt} and {sd} (create it). Do not read or touch /verif or /repo. There is no network.

Here is a semantic property flex is supposed to satisfy:

Title: {p['title']}
Statement: {p['statement']}
Quantified over: {p['quantifier']['text']}
Why the existing tests cannot settle it: {p['why_tests_cant']}
Code it is anchored in: {', '.join(p['anchors']['files'])}

Produce up to THREE independent changes to the flex sources under {wt}/src (generator C files, parse.y, scan.l, the skeletons *.skl, FlexLexer.h), each of which:
  1. BREAKS the property above (the generated scanners, or flex itself, then behave in a way the statement forbids),
  2. still compiles (flex builds, bootstrap comparison of stage1scan.c/stage2scan.c included) and still passes the whole existing test suite (`make -C tests clean && make -k -j8 check` shows 257 PASS, 0 FAIL) -- run it to be sure,
  3. is realistic: the kind of slip a maintainer could make in a refactor (off-by-one, wrong comparison, dropped special case, stale state not saved or restored, wrong variable, two sites that each look fine alone) -- not sabotage that ordinary use would expose at once,
  4. needs something SPECIFIC to manifest: an unusual input, a particular buffer/refill boundary, a multi-step sequence of API calls, a particular option combination, a fault at a particular point, a particular interleaving. Prefer the three changes to live in different mechanisms/files.

For each change i (1..3) write into {sd}/m<i>/ :
  - patch.diff : `git diff` of the change against the worktree's HEAD (source files only, no generated files; it must apply with `git apply` to a clean checkout of HEAD),
  - a demonstration: a small flex spec / C program / shell script `demo.sh` that takes the path of a built source tree as $1 (uses $1/src/flex and, for C++, -I$1/src), exits 0 on the unmodified tree and exits non-zero on the changed tree, showing the property violated (keep it self-contained and quick; it may write only under its own temp dir),
  - notes.md : which clause of the property it breaks, what it needs in order to manifest, and confirmation (with the numbers) that the test suite still passes with the change.
Verify each demonstration both ways yourself: run it on the worktree with the change applied (must fail) and with the change reverted via `git checkout -- src` + `make -j8` (must pass). After finishing each change, revert the worktree (`git checkout -- .`, rebuild) before starting the next so that the patches are independent. Leave the worktree clean at the end.

Notes on this flex version: it is a development snapshot with renamed hooks (yybegin/yystart/yyatbol/yysetbol/yyinput/yyunput/yyreject/yymore/yyless, yybuffer, %option pre-action/user-init/noyyread/noyypanic, --emit=c99); see {wt}/doc/flex.texi. The generator is built as src/flex; skeleton edits need `make -j8` to regenerate src/*-flex.h. If a build in the worktree breaks in odd ways, `make -j8` again or `./configure && make -j8`.

Finish with a short report: for each change, one line on what it is, and whether both verifications (suite passes; demo fails with / passes without) succeeded. If you cannot find three, deliver fewer good ones rather than weak ones.""")
