#!/bin/sh
# mkworktree.sh <dir>: scratch git worktree of /repo with a configured, built tree
# (configure and the autotools files are untracked in /repo, so they are copied in).
set -e
d=$1
git -C /repo worktree add -q "$d" HEAD
rsync -a --exclude .git --ignore-existing /repo/ "$d"/
cd "$d"
make distclean >/dev/null 2>&1 || true
./configure >/dev/null 2>&1
make -j8 >/dev/null 2>&1 || make -j8 >/dev/null 2>&1 || true
test -x src/flex
echo "ready: $d"
