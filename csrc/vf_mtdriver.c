/* vf_mtdriver.c - C12: scanner instances are isolated from each other and safe to run in parallel.
 *
 * The program links several generated scanners (different prefixes, back ends, table
 * representations); vf_mt_table.h (generated) lists their adapters, the instances
 * (adapter, input, read chunk) and the configurations (small sets of instances).
 *
 *   mt.exe solo                       every instance alone: prints its log (the reference)
 *   mt.exe inter   <config> <bound>   one thread: every interleaving of the instances' life-cycle steps
 *                                     (create, each yylex() call, destroy) with at most <bound> switches away from
 *                                     an instance that could continue, where a switch may also happen *inside* a
 *                                     step, at the read and allocation callbacks (the other instance's step then
 *                                     runs nested)
 *   mt.exe threads <config> <bound>   one real thread per instance under a serialising scheduler: every schedule
 *                                     with at most <bound> preemptions at the same points
 *   mt.exe free    <reps>             all instances on free-running threads (built with -fsanitize=thread)
 *   mt.exe replay  <inter|threads> <config> c0,c1,...
 *
 * Oracle: the log of every instance (tokens with text, length, line, start condition, semantic value; allocation
 * account; foreign frees) equals the log of the same instance run alone.
 */
#include <stdio.h>
#include <stdlib.h>
#include <string.h>
#include <signal.h>
#include <unistd.h>
#include <pthread.h>
#include "vf_mt.h"

#define VF_LOGMAX 8192
struct vf_inst {
	int id;
	const vf_adapter *ad;
	const char *input;
	int inlen, pos, chunk;
	void *scanner;
	int phase;               /* 0 not created, 1 scanning, 2 end of input seen, 3 destroyed */
	int active;              /* inside one of its API calls */
	char log[VF_LOGMAX];
	int loglen, logover;
	long nalloc, nfree, foreign, live;
};

static void vf_hard_error(const char *why);
#define VF_MAXCH 640
#include "explorer.h"
#include "vf_mt_table.h"      /* vf_adapters[], VF_NINST, vf_inst_init[], vf_configs[][] */

enum { M_SOLO, M_INTER, M_THREADS, M_FREE };
static int vf_mode;
static struct vf_inst vf_I[VF_NINST];
static char vf_ref[VF_NINST][VF_LOGMAX];
static int vf_reflen[VF_NINST];
static int vf_cfg[VF_NINST], vf_ncfg;          /* instance ids of the current configuration */
static char vf_order[4096]; static int vf_orderlen;   /* global order of tokens: which instance */
static const char *vf_cfgname = "";

/* ---------------------------------------------------------------- distinct global orders */
#define VF_HS (1 << 20)
static unsigned long long vf_hs[VF_HS]; static long vf_distinct;
static void vf_note_order(void)
{
	unsigned long long h = 1469598103934665603ULL; int i; unsigned long k;
	for (i = 0; i < vf_orderlen; i++) { h ^= (unsigned char)vf_order[i]; h *= 1099511628211ULL; }
	if (!h) h = 1;
	for (k = (unsigned long)(h & (VF_HS - 1)); vf_hs[k]; k = (k + 1) & (VF_HS - 1)) if (vf_hs[k] == h) return;
	if (vf_distinct < VF_HS / 2) { vf_hs[k] = h; vf_distinct++; }
}

/* ---------------------------------------------------------------- reporting */
static void vf_print_choices(FILE *f)
{
	int i;
	fprintf(f, "choices=");
	for (i = 0; i < vf_tr_len; i++) fprintf(f, "%s%d", i ? "," : "", vf_tr_choice[i]);
	fprintf(f, "\n");
}
static void vf_hard_error(const char *why)
{
	printf("HARNESS-ERROR %s\n", why); vf_print_choices(stdout); fflush(stdout);
	_exit(4);
}
static void vf_crash(int sig)
{
	char b[64]; int i, n;
	n = snprintf(b, sizeof b, "\nCRASH signal=%d config=%s choices=", sig, vf_cfgname);
	if (write(1, b, (size_t)n) < 0) _exit(5);
	for (i = 0; i < vf_tr_len; i++) { n = snprintf(b, sizeof b, "%s%d", i ? "," : "", vf_tr_choice[i]); if (write(1, b, (size_t)n) < 0) _exit(5); }
	if (write(1, "\n", 1) < 0) _exit(5);
	_exit(3);
}
void __asan_on_error(void);
void __asan_on_error(void)
{
	printf("\nSANITIZER-REPORT config=%s ", vf_cfgname); vf_print_choices(stdout); fflush(stdout);
}

/* ---------------------------------------------------------------- instance log and allocation account */
static void vf_logf(vf_inst *in, const char *s)
{
	int n = (int)strlen(s);
	if (in->loglen + n + 1 >= VF_LOGMAX) { in->logover = 1; return; }
	memcpy(in->log + in->loglen, s, (size_t)n + 1);
	in->loglen += n;
}
void vf_mt_tok(vf_inst *in, int rule, const char *text, long leng, int lineno, int sc, long aux)
{
	char b[400]; int n, i;
	n = snprintf(b, sizeof b, "T%d l%ld n%d s%d a%ld ", rule, leng, lineno, sc, aux);
	for (i = 0; i < leng && i < 60; i++) n += snprintf(b + n, sizeof b - (size_t)n, "%02x", (unsigned char)text[i]);
	b[n++] = '\n'; b[n] = 0;
	vf_logf(in, b);
	if (vf_mode != M_FREE && vf_orderlen < (int)sizeof vf_order - 1) vf_order[vf_orderlen++] = (char)('A' + in->id);
}

struct vf_hdr { unsigned long magic; long owner; size_t size; size_t pad; };
#define VF_MAGIC 0x5ca1ab1eUL
static void vf_point(vf_inst *in);

void *vf_mt_alloc(vf_inst *in, size_t n)
{
	struct vf_hdr *h;
	if (in) vf_point(in);
	h = (struct vf_hdr *)malloc(sizeof *h + n);
	if (!h) return 0;
	h->magic = VF_MAGIC; h->owner = in ? in->id : -1; h->size = n;
	if (in) { in->nalloc++; in->live++; }
	return h + 1;
}
void vf_mt_free(vf_inst *in, void *p)
{
	struct vf_hdr *h;
	if (!p) return;
	h = (struct vf_hdr *)p - 1;
	if (h->magic != VF_MAGIC) { if (in) in->foreign += 1000; return; }
	if (in) { if (h->owner != in->id) in->foreign++; in->nfree++; in->live--; }
	h->magic = 0;
	free(h);
}
void *vf_mt_realloc(vf_inst *in, void *p, size_t n)
{
	void *q; struct vf_hdr *h;
	if (!p) return vf_mt_alloc(in, n);
	h = (struct vf_hdr *)p - 1;
	q = vf_mt_alloc(in, n);             /* always moves: stale pointers into the old block become visible to ASan */
	if (!q) return 0;
	memcpy(q, p, h->size < n ? h->size : n);
	vf_mt_free(in, p);
	return q;
}

int vf_mt_read(vf_inst *in, char *buf, int max)
{
	int n;
	vf_point(in);
	n = in->inlen - in->pos;
	if (n > in->chunk) n = in->chunk;
	if (n > max) n = max;
	if (n > 0) memcpy(buf, in->input + in->pos, (size_t)n);
	in->pos += n;
	return n;
}

/* ---------------------------------------------------------------- life cycle */
static void vf_reset_inst(int id)
{
	vf_inst *in = &vf_I[id];
	memset(in, 0, sizeof *in);
	in->id = id; in->ad = vf_inst_init[id].ad; in->input = vf_inst_init[id].input;
	in->inlen = (int)strlen(in->input); in->chunk = vf_inst_init[id].chunk;
}
/* one step; returns 0 when the instance has nothing left to do */
static int vf_step(vf_inst *in)
{
	in->active++;
	if (in->phase == 0) { in->scanner = in->ad->mk(in); in->phase = 1; }
	else if (in->phase == 1) { if (!in->ad->lex(in->scanner, in)) in->phase = 2; }
	else if (in->phase == 2) {
		char b[120];
		in->ad->del(in->scanner, in); in->phase = 3;
		snprintf(b, sizeof b, "END allocs=%ld frees=%ld live=%ld foreign=%ld\n", in->nalloc, in->nfree, in->live, in->foreign);
		vf_logf(in, b);
	}
	in->active--;
	return in->phase != 3;
}

/* ---------------------------------------------------------------- mode: nested interleaving on one thread */
static void vf_point_inter(vf_inst *in)
{
	for (;;) {
		int cand[VF_NINST], n = 0, k, c;
		for (k = 0; k < vf_ncfg; k++) {
			vf_inst *o = &vf_I[vf_cfg[k]];
			if (o != in && !o->active && o->phase != 3) cand[n++] = vf_cfg[k];
		}
		if (!n) return;
		c = vf_choose(n + 1, VF_K_CALL);
		if (!c) return;
		vf_step(&vf_I[cand[c - 1]]);
	}
}
static void vf_run_inter(void)
{
	int cur = -1, k;
	for (k = 0; k < vf_ncfg; k++) vf_reset_inst(vf_cfg[k]);
	vf_orderlen = 0;
	for (;;) {
		int order[VF_NINST], n = 0, c;
		if (cur >= 0 && vf_I[cur].phase != 3) order[n++] = cur;
		for (k = 0; k < vf_ncfg; k++) if (vf_cfg[k] != cur && vf_I[vf_cfg[k]].phase != 3) order[n++] = vf_cfg[k];
		if (!n) break;
		c = vf_choose(n, (cur >= 0 && vf_I[cur].phase != 3) ? VF_K_SCHED : VF_K_ARG);
		cur = order[c];
		vf_step(&vf_I[cur]);
	}
}

/* ---------------------------------------------------------------- mode: real threads under a serialising scheduler */
static pthread_mutex_t vf_mu = PTHREAD_MUTEX_INITIALIZER;
static pthread_cond_t vf_cv = PTHREAD_COND_INITIALIZER;
static int vf_turn;                       /* instance id that may run; -1 nobody yet; -2 all done */
static int vf_finished[VF_NINST];

static void vf_wait_turn(int me)
{
	pthread_mutex_lock(&vf_mu);
	while (vf_turn != me) pthread_cond_wait(&vf_cv, &vf_mu);
	pthread_mutex_unlock(&vf_mu);
}
static void vf_give_turn(int to)
{
	pthread_mutex_lock(&vf_mu);
	vf_turn = to;
	pthread_cond_broadcast(&vf_cv);
	pthread_mutex_unlock(&vf_mu);
}
static void vf_point_threads(vf_inst *in)
{
	int order[VF_NINST], n = 0, k, c;
	order[n++] = in->id;
	for (k = 0; k < vf_ncfg; k++) if (vf_cfg[k] != in->id && !vf_finished[vf_cfg[k]]) order[n++] = vf_cfg[k];
	c = vf_choose(n, VF_K_SCHED);
	if (c) { vf_give_turn(order[c]); vf_wait_turn(in->id); }
}
static void *vf_thread_body(void *arg)
{
	vf_inst *in = (vf_inst *)arg;
	int order[VF_NINST], n = 0, k;
	vf_wait_turn(in->id);
	do { vf_point_threads(in); } while (vf_step(in));
	vf_finished[in->id] = 1;
	for (k = 0; k < vf_ncfg; k++) if (!vf_finished[vf_cfg[k]]) order[n++] = vf_cfg[k];
	vf_give_turn(n ? order[vf_choose(n, VF_K_ARG)] : -2);
	return 0;
}
static void vf_run_threads(void)
{
	pthread_t th[VF_NINST]; int k, first;
	for (k = 0; k < vf_ncfg; k++) { vf_reset_inst(vf_cfg[k]); vf_finished[vf_cfg[k]] = 0; }
	vf_orderlen = 0;
	vf_turn = -1;
	for (k = 0; k < vf_ncfg; k++) if (pthread_create(&th[k], 0, vf_thread_body, &vf_I[vf_cfg[k]])) vf_hard_error("pthread_create failed");
	first = vf_cfg[vf_choose(vf_ncfg, VF_K_ARG)];
	vf_give_turn(first);
	for (k = 0; k < vf_ncfg; k++) pthread_join(th[k], 0);
}

static void vf_point(vf_inst *in)
{
	if (vf_mode == M_INTER) vf_point_inter(in);
	else if (vf_mode == M_THREADS) vf_point_threads(in);
}

/* ---------------------------------------------------------------- mode: free-running threads (race detector build) */
static pthread_barrier_t vf_bar;
static void *vf_free_body(void *arg)
{
	vf_inst *in = (vf_inst *)arg;
	pthread_barrier_wait(&vf_bar);
	while (vf_step(in)) { }
	return 0;
}

/* ---------------------------------------------------------------- comparison */
static long vf_mismatches;
static void vf_compare(const char *what)
{
	int k;
	for (k = 0; k < vf_ncfg; k++) {
		vf_inst *in = &vf_I[vf_cfg[k]];
		if (in->logover) vf_hard_error("instance log overflow");
		if (in->loglen != vf_reflen[in->id] || memcmp(in->log, vf_ref[in->id], (size_t)in->loglen)) {
			const char *a = vf_ref[in->id], *b = in->log; int line = 1;
			while (*a && *a == *b) { if (*a == '\n') line++; a++; b++; }
			printf("MISMATCH mode=%s config=%s instance=%d(%s) log line %d\n", what, vf_cfgname, in->id, in->ad->name, line);
			vf_print_choices(stdout);
			printf("--- alone\n%s--- here\n%s---\n", vf_ref[in->id], in->log);
			vf_mismatches++;
			fflush(stdout);
			exit(1);
		}
	}
}
static void vf_exec_inter(void) { vf_run_inter(); vf_compare("inter"); vf_note_order(); }
static void vf_exec_threads(void) { vf_run_threads(); vf_compare("threads"); vf_note_order(); }

static void vf_select_config(const char *name)
{
	int c, k;
	for (c = 0; c < VF_NCONFIGS; c++) if (!strcmp(vf_configs[c].name, name)) {
		vf_cfgname = vf_configs[c].name;
		for (k = 0, vf_ncfg = 0; k < vf_configs[c].n; k++) vf_cfg[vf_ncfg++] = vf_configs[c].inst[k];
		return;
	}
	vf_hard_error("unknown configuration");
}

static void vf_solo_all(int print)
{
	int id;
	for (id = 0; id < VF_NINST; id++) {
		vf_reset_inst(id);
		while (vf_step(&vf_I[id])) { }
		if (vf_I[id].logover) vf_hard_error("instance log overflow");
		memcpy(vf_ref[id], vf_I[id].log, (size_t)vf_I[id].loglen + 1);
		vf_reflen[id] = vf_I[id].loglen;
		if (print) printf("INSTANCE %d %s chunk=%d\n%s", id, vf_I[id].ad->name, vf_I[id].chunk, vf_ref[id]);
	}
}

int main(int argc, char **argv)
{
	int a, k;
	setvbuf(stdout, 0, _IOLBF, 0);
	if (argc < 2) return 2;
	signal(SIGSEGV, vf_crash); signal(SIGBUS, vf_crash); signal(SIGFPE, vf_crash); signal(SIGABRT, vf_crash);
	for (a = 0; a < VF_NADAPTERS; a++) if (vf_ginit[a]) vf_ginit[a]();
	vf_explore_off = 1; vf_mode = M_SOLO;
	vf_solo_all(!strcmp(argv[1], "solo"));
	/* the reference itself must be reproducible: run everything alone a second time */
	{
		static char again[VF_NINST][VF_LOGMAX]; int id;
		for (id = 0; id < VF_NINST; id++) memcpy(again[id], vf_ref[id], VF_LOGMAX);
		vf_solo_all(0);
		for (id = 0; id < VF_NINST; id++) if (strcmp(again[id], vf_ref[id])) {
			printf("MISMATCH mode=solo-twice config=- instance=%d(%s) log line 0\n--- first\n%s--- second\n%s---\n", id, vf_inst_init[id].ad->name, again[id], vf_ref[id]);
			return 1;
		}
	}
	vf_explore_off = 0;
	if (!strcmp(argv[1], "solo")) { printf("SOLO-OK instances=%d\n", VF_NINST); goto done; }
	if ((!strcmp(argv[1], "inter") || !strcmp(argv[1], "threads")) && argc >= 4) {
		int bound = atoi(argv[3]), b;
		int threads = !strcmp(argv[1], "threads");
		vf_mode = threads ? M_THREADS : M_INTER;
		vf_select_config(argv[2]);
		if (argc >= 5) vf_deadline = time((time_t *)0) + atoi(argv[4]);
		for (k = 0; k < VF_NKINDS; k++) { vf_budget[k] = 1 << 20; vf_kind_free[k] = 0; }
		vf_kind_free[VF_K_ARG] = 1;
		for (b = 0; b <= bound && !vf_timed_out; b++) {
			long e0 = vf_executions;
			vf_budget_total = b;
			vf_explore(threads ? vf_exec_threads : vf_exec_inter);
			printf("BOUND %d executions=%ld distinct_orders=%ld timed_out=%d overflow=%d\n", b, vf_executions - e0, vf_distinct, vf_timed_out, vf_overflow);
		}
		printf("DONE mode=%s config=%s bound=%d executions=%ld choice_points=%ld distinct_orders=%ld timed_out=%d overflow=%d instances=%d\n",
		       argv[1], vf_cfgname, bound, vf_executions, vf_choice_points, vf_distinct, vf_timed_out, vf_overflow, vf_ncfg);
		goto done;
	}
	if (!strcmp(argv[1], "replay") && argc >= 5) {
		int ch[VF_MAXCH], n = 0; char *p = argv[4];
		int threads = !strcmp(argv[2], "threads");
		vf_mode = threads ? M_THREADS : M_INTER;
		vf_select_config(argv[3]);
		while (*p && n < VF_MAXCH) { ch[n++] = (int)strtol(p, &p, 10); if (*p == ',') p++; }
		for (k = 0; k < 2; k++) {          /* twice: the same schedule must give the same observation */
			vf_replay(threads ? vf_exec_threads : vf_exec_inter, ch, n);
		}
		printf("REPLAY-OK order=%.*s\n", vf_orderlen, vf_order);
		goto done;
	}
	if (!strcmp(argv[1], "free") && argc >= 3) {
		int reps = atoi(argv[2]), r;
		vf_mode = M_FREE; vf_explore_off = 1;
		vf_ncfg = 0;
		for (k = 0; k < VF_NINST; k++) vf_cfg[vf_ncfg++] = k;
		vf_cfgname = "all";
		for (r = 0; r < reps; r++) {
			pthread_t th[VF_NINST];
			pthread_barrier_init(&vf_bar, 0, (unsigned)VF_NINST);
			for (k = 0; k < VF_NINST; k++) vf_reset_inst(k);
			for (k = 0; k < VF_NINST; k++) if (pthread_create(&th[k], 0, vf_free_body, &vf_I[(k + r) % VF_NINST])) vf_hard_error("pthread_create failed");
			for (k = 0; k < VF_NINST; k++) pthread_join(th[k], 0);
			pthread_barrier_destroy(&vf_bar);
			vf_compare("free");
		}
		printf("DONE mode=free reps=%d threads=%d\n", reps, VF_NINST);
		goto done;
	}
	return 2;
done:
	for (a = 0; a < VF_NADAPTERS; a++) if (vf_gfini[a]) vf_gfini[a]();
	return 0;
}
