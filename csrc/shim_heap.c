/* shim_heap.c - LD_PRELOAD allocator perturbation for C18 (determinism of the generator).
 *
 * Every block is allocated VF_HEAP_OFFSET bytes larger, filled with the byte VF_HEAP_FILL and
 * handed out at that offset, so that heap addresses, their relative order and the contents of
 * fresh (and of just-grown) memory all differ from an unperturbed run.  The generator's output
 * must not depend on any of them.
 */
#define _GNU_SOURCE
#include <stddef.h>
#include <stdlib.h>
#include <string.h>
#include <malloc.h>

extern void *__libc_malloc(size_t);
extern void __libc_free(void *);

static size_t off = (size_t)-1;
static int fill;

static void init(void)
{
	const char *o = getenv("VF_HEAP_OFFSET"), *f = getenv("VF_HEAP_FILL");
	off = o ? (size_t)strtoul(o, 0, 0) : 0;
	off = (off + 15) & ~(size_t)15;
	fill = f ? (int)strtoul(f, 0, 0) : 0xC5;
}

void *malloc(size_t n)
{
	char *p;
	if (off == (size_t)-1) init();
	p = (char *)__libc_malloc(n + off + 16);
	if (!p) return 0;
	memset(p, fill, n + off + 16);
	*(size_t *)(void *)(p + off) = n;          /* size header just below the user block */
	return p + off + 16;
}

void free(void *q)
{
	if (!q) return;
	if (off == (size_t)-1) init();
	__libc_free((char *)q - off - 16);
}

void *calloc(size_t a, size_t b)
{
	size_t n = a * b;
	void *p;
	if (b && n / b != a) return 0;
	p = malloc(n);
	if (p) memset(p, 0, n);
	return p;
}

void *realloc(void *q, size_t n)
{
	size_t old;
	void *p;
	if (!q) return malloc(n);
	if (!n) { free(q); return 0; }
	old = *(size_t *)(void *)((char *)q - 16);
	p = malloc(n);                              /* always moves; the grown part keeps the fill pattern */
	if (!p) return 0;
	memcpy(p, q, old < n ? old : n);
	free(q);
	return p;
}

void *reallocarray(void *q, size_t a, size_t b)
{
	if (b && (a * b) / b != a) return 0;
	return realloc(q, a * b);
}
