/* explorer.h - deviation-bounded depth-first enumeration of choice vectors.
 *
 * Instrumented points call vf_choose(n, kind).  While replaying a prefix the
 * recorded answer is returned (an out-of-range answer is a hard error: some
 * nondeterminism leaked); after the prefix the default answer 0 is given.
 * vf_explore() runs the default execution, then every execution that differs
 * from an explored one by one more non-default answer, as long as the number
 * of non-default answers of each kind stays within vf_budget[kind] and the
 * total within vf_budget_total.
 */
#ifndef VF_EXPLORER_H
#define VF_EXPLORER_H

#ifndef VF_MAXCH
#define VF_MAXCH 192
#endif
#define VF_NKINDS 8
enum { VF_K_READ = 0, VF_K_OP = 1, VF_K_ARG = 2, VF_K_ALLOC = 3, VF_K_CALL = 4, VF_K_FAULT = 5, VF_K_SCHED = 6, VF_K_MISC = 7 };

static int vf_prefix[VF_MAXCH], vf_prefix_len;
static int vf_tr_choice[VF_MAXCH], vf_tr_n[VF_MAXCH], vf_tr_kind[VF_MAXCH], vf_tr_len;
static int vf_budget[VF_NKINDS], vf_budget_total = 0;
static int vf_kind_free[VF_NKINDS];   /* kinds whose non-default answers do not count as deviations */
static int vf_explore_off = 0;         /* 1: every choice answers 0, nothing recorded */
static long vf_executions, vf_choice_points, vf_trunc_choices;
static int vf_overflow;                /* an execution had more than VF_MAXCH choice points */

static void vf_hard_error(const char *why);

static int vf_choose(int n, int kind)
{
	int c = 0;
	if (n <= 1 || vf_explore_off)
		return 0;
	if (vf_tr_len >= VF_MAXCH) {
		vf_overflow = 1;
		vf_trunc_choices++;
		return 0;
	}
	if (vf_tr_len < vf_prefix_len) {
		c = vf_prefix[vf_tr_len];
		if (c < 0 || c >= n)
			vf_hard_error("replayed choice out of range: nondeterminism leaked into the harness");
	}
	vf_tr_choice[vf_tr_len] = c;
	vf_tr_n[vf_tr_len] = n;
	vf_tr_kind[vf_tr_len] = kind;
	vf_tr_len++;
	vf_choice_points++;
	return c;
}

typedef void (*vf_run_fn)(void);

#include <time.h>
static time_t vf_deadline;             /* 0: none.  When it passes, exploration stops and the run reports timed_out */
static int vf_timed_out;

static void vf_explore_rec(vf_run_fn run, const int *prefix, int plen, const int *used, int used_total)
{
	int choice[VF_MAXCH], n[VF_MAXCH], kind[VF_MAXCH], len, i, alt;
	if (vf_timed_out) return;
	if (vf_deadline && (vf_executions & 1023) == 0 && time((time_t *)0) > vf_deadline) { vf_timed_out = 1; return; }
	if (plen > 0) memcpy(vf_prefix, prefix, sizeof(int) * (size_t)plen);
	vf_prefix_len = plen;
	vf_tr_len = 0;
	vf_executions++;
	run();
	if (vf_tr_len < plen)
		vf_hard_error("execution ended before its replayed prefix was consumed");
	len = vf_tr_len;
	memcpy(choice, vf_tr_choice, sizeof(int) * (size_t)len);
	memcpy(n, vf_tr_n, sizeof(int) * (size_t)len);
	memcpy(kind, vf_tr_kind, sizeof(int) * (size_t)len);
	for (i = plen; i < len; i++) {
		int k = kind[i];
		int used2[VF_NKINDS];
		int cost = vf_kind_free[k] ? 0 : 1;
		if (used[k] + 1 > vf_budget[k] || used_total + cost > vf_budget_total)
			continue;
		memcpy(used2, used, sizeof used2);
		used2[k]++;
		for (alt = 1; alt < n[i]; alt++) {
			choice[i] = alt;
			vf_explore_rec(run, choice, i + 1, used2, used_total + cost);
		}
		choice[i] = 0;
	}
}

static void vf_explore(vf_run_fn run)
{
	int used[VF_NKINDS];
	memset(used, 0, sizeof used);
	vf_explore_rec(run, (const int *)0, 0, used, 0);
	vf_prefix_len = 0;
}

/* run exactly one execution with a given choice vector (replay) */
static void vf_replay(vf_run_fn run, const int *choices, int len)
{
	memcpy(vf_prefix, choices, sizeof(int) * (size_t)len);
	vf_prefix_len = len;
	vf_tr_len = 0;
	vf_executions++;
	run();
	vf_prefix_len = 0;
}
#endif
