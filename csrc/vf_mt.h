/* vf_mt.h - interface between the C12 driver (vf_mtdriver.c) and the scanners it links.
 *
 * Every scanner of the program is generated with its own prefix and exports one adapter:
 * create / one yylex() call / destroy of an instance.  All instance state the driver keeps
 * (input cursor, token log, allocation account) hangs off a vf_inst, which the scanner
 * carries as yyextra (reentrant C, c99), in a member (C++) or in a static (non-reentrant C).
 * The scanner calls back at its three seams: reading input, allocating memory, reporting a
 * token; the first two are scheduling points of the explorer.
 */
#ifndef VF_MT_H
#define VF_MT_H
#include <stddef.h>
#ifdef __cplusplus
extern "C" {
#endif

typedef struct vf_inst vf_inst;

typedef struct vf_adapter {
	const char *name;
	void *(*mk)(vf_inst *in);        /* create an instance bound to 'in' */
	int (*lex)(void *scanner, vf_inst *in);  /* one yylex() call; 0 at the end of input */
	void (*del)(void *scanner, vf_inst *in);
	int reentrant;                   /* 0: a single instance at a time (non-reentrant C) */
} vf_adapter;

int vf_mt_read(vf_inst *in, char *buf, int max);                /* scheduling point, then up to 'max' bytes */
void *vf_mt_alloc(vf_inst *in, size_t n);                      /* scheduling point, accounted to 'in' */
void *vf_mt_realloc(vf_inst *in, void *p, size_t n);
void vf_mt_free(vf_inst *in, void *p);
void vf_mt_tok(vf_inst *in, int rule, const char *text, long leng, int lineno, int sc, long aux);

#ifdef __cplusplus
}
#endif
#endif
