/* reftypes.h - table types shared by the generated reference tables and refscan.h */
#ifndef VF_REFTYPES_H
#define VF_REFTYPES_H
typedef struct { int nst; const short *tr; const int *ao; const short *al; } vf_dfa;
/* head/trail: indices into vf_dfas of the automata for r and s of 'r/s', or -1 */
typedef struct { short head, trail; short flags; } vf_rule;
typedef struct { int sc; int maxlen; int nalpha; const unsigned char *alpha;
                 int nextra; const unsigned char *extra; /* nextra records: len byte + bytes */
                 int id; } vf_group;

#endif
