/* vf_bufdriver.h - histories of buffer / end-of-input operations (C10, C11, and under
 * sanitizers C13/C14).
 *
 * Every action returns after one token, so the driver loop sits between yylex() calls and
 * chooses the next API call (explorer kind CALL): lex, create+switch, create+push, pop,
 * switch, flush, delete, yy_scan_bytes/string/buffer, yyrestart, new yyin.  yywrap() and the
 * <<EOF>> actions are further choice points.  The model keeps, per buffer, a reference
 * scanner over that buffer's content alone; the scanner-wide start condition; the buffer
 * stack; and how many bytes of each source have been handed to the scanner.
 */
#ifndef VF_BUFDRIVER_H
#define VF_BUFDRIVER_H
#include "explorer.h"
#include <signal.h>
#include <unistd.h>

enum { VF_ST_DONE = 0, VF_ST_FATAL = 1, VF_ST_HORIZON = 2, VF_ST_MISMATCH = 3 };
#ifdef VF_DEEP
#define VF_NB 48
#else
#define VF_NB 12
#endif
#define VF_MAXSTK 64

typedef struct {
	int alive, is_file, src, srcpos, handle_valid, user_mem;
	int line;            /* VF_BUF_LINENO: 1 + newlines consumed from this buffer (reentrant scanners count per buffer) */
	int eof_told;        /* the source has answered 'end of input' and neither yywrap nor the user has intervened since */
	vf_ref R;
	yybuffer h;
} vf_mbuf;

static vf_mbuf vf_B[VF_NB];
static int vf_nB;
static int vf_stk[VF_MAXSTK], vf_sp;       /* buffer indices, -1 = empty slot on top */
static int vf_sc;                          /* scanner-wide start condition */
static int vf_yyin_src = -1, vf_yyin_fresh;/* what yyin points at, and whether nothing has read from it yet */
static int vf_src_used[VF_NSRC];
static int vf_lexed_once, vf_pending_yyin, vf_expect_eof_body;
static int vf_terminated;                  /* last yylex() returned 0 */
static char vf_fake_file[VF_NSRC + 1];
#define VF_FAKE(k) ((FILE *)(void *)&vf_fake_file[k])

static jmp_buf vf_jmp;
static int vf_in_scanner;
static long vf_steps, vf_horizon = 60;
static char vf_fatal_msg[256];
static const char *vf_expected_fatal;
static FILE *vf_out;
static long vf_n_tokens, vf_n_mismatch, vf_n_fatal, vf_n_horizon, vf_n_reads, vf_n_eof_actions, vf_n_wraps, vf_n_calls[16];
static long vf_n_expected_fatal, vf_n_nontrivial;
static int vf_exec_ops, vf_exec_bufs;
static int vf_reported;
static char vf_hist[512]; static int vf_hist_len;
static const char *vf_mm_what; static int vf_mm_a, vf_mm_b;
static int vf_line_g = 1;                  /* VF_BUF_LINENO, non-reentrant scanner: one count for the whole scanner */
static int vf_in_input, vf_input_eof;      /* VF_ACTION_INPUT: inside yyinput(); yywrap() said 1 during that call */
#if defined(VF_API_NR)
#define VF_LINE(b) vf_line_g
#else
#define VF_LINE(b) vf_B[b].line
#endif

static void vf_hard_error(const char *why)
{
	fprintf(vf_out ? vf_out : stdout, "{\"hard_error\":\"%s\"}\n", why);
	fflush(vf_out ? vf_out : stdout);
	exit(4);
}
static void vf_log(const char *fmt, int a, int b)
{
	if (vf_hist_len < (int)sizeof vf_hist - 40)
		vf_hist_len += snprintf(vf_hist + vf_hist_len, sizeof vf_hist - (size_t)vf_hist_len, fmt, a, b);
}
static void vf_leave(int st)
{
	if (vf_in_scanner) longjmp(vf_jmp, st + 1);
	vf_hard_error("vf_leave outside the scanner");
}
static void vf_fatal(const char *msg)
{
	strncpy(vf_fatal_msg, msg ? msg : "", sizeof vf_fatal_msg - 1);
	vf_leave(VF_ST_FATAL);
	abort();
}
static void vf_fail(const char *what, int a, int b)
{
	vf_mm_what = what; vf_mm_a = a; vf_mm_b = b;
	vf_leave(VF_ST_MISMATCH);
}
static void vf_step(void) { if (++vf_steps > vf_horizon) vf_leave(VF_ST_HORIZON); }
static void vf_body(void) { }

#ifdef VF_LEDGER
#include "ledger.h"
#endif

/* ---- API flavour glue ---- */
#if defined(VF_API_NR)
#define VF_S0
#define VF_S1
#define VF_GUTS
#define VF_LEX() yylex()
#define VF_CUR() yy_current_buffer()
#define VF_SET_IN(f) (yyin = (f))
static void vf_fresh(void) { yylex_destroy(); }
#elif defined(VF_API_R)
static yyscan_t vf_scanner;
#define VF_S0 vf_scanner
#define VF_S1 , vf_scanner
#define VF_GUTS struct yyguts_t *yyg = (struct yyguts_t *)vf_scanner; yyscan_t yyscanner = vf_scanner; (void)yyg; (void)yyscanner;
#define VF_LEX() yylex(vf_scanner)
#define VF_CUR() yy_current_buffer()
#define VF_SET_IN(f) yyset_in((f), vf_scanner)
static void vf_fresh(void)
{
	if (vf_scanner) { yylex_destroy(vf_scanner); vf_scanner = 0; }
	if (yylex_init(&vf_scanner) != 0) vf_hard_error("yylex_init failed");
}
#else
static yyscan_t vf_scanner;
#define VF_S0 vf_scanner
#define VF_S1 , vf_scanner
#define VF_GUTS
#define VF_LEX() yylex(vf_scanner)
#define VF_CUR() yy_current_buffer(vf_scanner)
#define VF_SET_IN(f) yyset_in((f), vf_scanner)
static void vf_fresh(void)
{
	if (vf_scanner) { yylex_destroy(vf_scanner); vf_scanner = 0; }
	if (yylex_init(&vf_scanner) != 0) vf_hard_error("yylex_init failed");
}
#endif

static int vf_cur(void) { return vf_sp > 0 ? vf_stk[vf_sp - 1] : -1; }

/* ---- the input routine: reads belong to the current buffer and come from its source ---- */
static int vf_read_from(FILE *f, char *buf, size_t max_size)
{
	int k = (int)((char *)(void *)f - vf_fake_file), c = vf_cur(), avail, n;
	vf_step();
	vf_n_reads++;
	if (k < 0 || k >= VF_NSRC) vf_fail("read from a FILE the harness never supplied", k, 0);
	if (c < 0 || !vf_B[c].alive || !vf_B[c].is_file) vf_fail("read request while the current buffer is not a file buffer", c, k);
	if (vf_B[c].src != k) vf_fail("read request for another buffer's source", vf_B[c].src, k);
	/* a source that has reported its end is not asked again before yywrap has been consulted: end of input need not be sticky
	 * (a terminal), and the scanner remembers it (YY_BUFFER_EOF_PENDING) while it delivers the pending token */
	if (vf_B[c].eof_told) vf_fail("the source already reported end of input and is asked again before yywrap was consulted", c, k);
	avail = vf_srcs[k].n - vf_B[c].srcpos;
	n = avail;
	if ((size_t)n > max_size) n = (int)max_size;
#ifdef VF_READ_ONE
	if (n > VF_READ_ONE) n = VF_READ_ONE;
#endif
	if (n > 0) memcpy(buf, vf_srcs[k].d + vf_B[c].srcpos, (size_t)n);
	vf_B[c].srcpos += n;
	if (n == 0) vf_B[c].eof_told = 1;
	return n;
}
#if defined(VF_API_C99)
static int yyread(char *buf, size_t max_size, struct yyguts_t *yyscanner) { return vf_read_from(yyget_in(yyscanner), buf, max_size); }
static void yypanic(const char *msg, struct yyguts_t *yyscanner) { (void)yyscanner; vf_fatal(msg); }
#endif
static int vf_read(char *buf, size_t max_size) { (void)buf; (void)max_size; vf_hard_error("vf_read must not be used by this driver"); return 0; }

/* ---- model helpers ---- */
static int vf_new_file_buf(int src)
{
	int b = vf_nB++;
	if (b >= VF_NB) vf_hard_error("model buffer table full");
	memset(&vf_B[b], 0, sizeof vf_B[b]);    /* the first use of a slot has a NULL R.buf; later uses leak one small buffer per execution: freed below */
	vf_B[b].alive = 1; vf_B[b].is_file = 1; vf_B[b].src = src; vf_B[b].srcpos = 0; vf_B[b].line = 1;
	vf_ref_init(&vf_B[b].R, vf_srcs[src].d, vf_srcs[src].n, 0);
	vf_src_used[src] = 1;
	vf_exec_bufs++;
	return b;
}
static int vf_new_mem_buf(const unsigned char *d, int n)
{
	int b = vf_nB++;
	if (b >= VF_NB) vf_hard_error("model buffer table full");
	memset(&vf_B[b], 0, sizeof vf_B[b]);
	vf_B[b].alive = 1; vf_B[b].is_file = 0; vf_B[b].src = -1; vf_B[b].line = 1;
	vf_ref_init(&vf_B[b].R, d, n, 0);
	vf_exec_bufs++;
	return b;
}
static int vf_fresh_src(void)
{
	int k;
	for (k = 0; k < VF_NSRC; k++) if (!vf_src_used[k]) return k;
	return -1;
}

/* ---- hooks called from inside yylex ---- */
static void vf_act(int act, const char *text, long leng, int start, int lineno, int atbol)
{
	int c = vf_cur();
	vf_ref *R;
	(void)lineno; (void)atbol;
	vf_step();
	if (vf_in_input) vf_fail("an action ran inside yyinput()", act, 0);
	if (start != vf_sc) vf_fail("start condition changed without yybegin", vf_sc, start);
	if (act > (int)YY_END_OF_BUFFER) {
		/* an explicit <<EOF>> action: only after yywrap said there is no more input, and only the one of this condition */
		vf_n_eof_actions++;
		if (c >= 0 && vf_B[c].alive && vf_B[c].R.head < vf_B[c].R.tail) vf_fail("<<EOF>> action with input left in the current buffer", c, 0);
		if (act != (int)YY_END_OF_BUFFER + vf_sc + 1) vf_fail("<<EOF>> action of another start condition", vf_sc, act - (int)YY_END_OF_BUFFER - 1);
		if (vf_eof_rule[vf_sc] < 0) vf_fail("explicit <<EOF>> action ran for a condition that has none", vf_sc, act);
		return;
	}
	if (vf_expect_eof_body) vf_fail("the <<EOF>> action of the current condition did not run", vf_sc, act);
	if (c < 0 || !vf_B[c].alive) vf_fail("token although no buffer is current in the model", c, act);
	R = &vf_B[c].R;
	R->sc = vf_sc;
	if (!vf_ref_match(R)) vf_fail("token after the end of the current buffer's content", c, act);
	if (act != R->rule) vf_fail("rule", R->rule, act);
	if (!vf_ref_split_ok(R, (int)leng)) vf_fail("yyleng", R->split[0], (int)leng);
	vf_ref_commit(R, (int)leng);
	if (memcmp(text, R->text, (size_t)leng) != 0) vf_fail("yytext (bytes of another buffer or position)", c, act);
	if (vf_B[c].is_file && (R->head - VF_FRONT) > vf_B[c].srcpos) vf_fail("token uses bytes never handed to the scanner", R->head - VF_FRONT, vf_B[c].srcpos);
#ifdef VF_BUF_LINENO
	{
		/* C09: one plus the newlines consumed - per scanner (non-reentrant) or per buffer (reentrant, c99); no buffer operation,
		 * flush included, consumes anything */
		long i;
		for (i = 0; i < leng; i++) if (text[i] == '\n') VF_LINE(c)++;
		if (lineno != VF_LINE(c)) vf_fail("yylineno", VF_LINE(c), lineno);
	}
#endif
	vf_n_tokens++;
}

/* yyinput() from an action (the comment-eating idiom): the next byte of the current buffer; at its end yywrap() is consulted and may
 * switch buffers, pop back, or name a new yyin - then the byte comes from there; only when yywrap() says 1 the end-of-input value */
static long vf_n_inputs, vf_n_input_eofs;
static int vf_action_input(void)
{
#ifdef VF_ACTION_INPUT
	if (vf_exec_ops >= VF_MAX_OPS) return 0;
	if (!vf_choose(2, VF_K_OP)) return 0;
	vf_exec_ops++;
	vf_log("aI ", 0, 0);
	vf_in_input = 1; vf_input_eof = 0;
	return 1;
#else
	return 0;
#endif
}
static void vf_did_input_b(int ch, int lineno)
{
	int c = vf_cur(), exp;
	(void)lineno;
	vf_step();
	vf_in_input = 0;
	vf_n_inputs++;
	if (vf_input_eof) {
		vf_input_eof = 0; vf_n_input_eofs++;
		if (ch != 0 && ch != EOF) vf_fail("yyinput() at the end of all input (yywrap said so) returned a character", -1, ch);
		return;
	}
	if (c < 0 || !vf_B[c].alive) vf_fail("yyinput() returned although no buffer is current in the model", c, ch);
	exp = vf_ref_input(&vf_B[c].R);
	if (exp < 0) vf_fail("yyinput() returned without consulting yywrap at the end of the current buffer", c, ch);
	if (ch != exp) vf_fail("yyinput() value (byte of another buffer or position)", exp, ch);
	if (vf_B[c].is_file && (vf_B[c].R.head - VF_FRONT) > vf_B[c].srcpos) vf_fail("yyinput() returned a byte never handed to the scanner", vf_B[c].R.head - VF_FRONT, vf_B[c].srcpos);
#ifdef VF_BUF_LINENO
	if (ch == '\n') VF_LINE(c)++;
	if (lineno != VF_LINE(c)) vf_fail("yylineno after yyinput()", VF_LINE(c), lineno);
#endif
}

/* action of the 'c' rules: toggles the start condition so that its persistence across buffer operations is visible */
static void vf_did_begin(int sc, int now) { vf_sc = sc; if (now != sc) vf_fail("yystart() after yybegin", sc, now); }

/* which <<EOF>> rule text is running */
static void vf_eof_body(int id)
{
	if (vf_eof_rule[vf_sc] != id) vf_fail("wrong <<EOF>> rule ran", vf_eof_rule[vf_sc], id);
	if (!vf_expect_eof_body) vf_fail("<<EOF>> action ran without yywrap having reported the end of input (or ran twice)", vf_sc, id);
	vf_expect_eof_body = 0;
	vf_n_eof_actions++;
}

/* ---- operations shared by the driver loop, yywrap and the EOF actions ---- */
static void vf_model_replace_top(int b)
{
	if (vf_sp == 0) vf_stk[vf_sp++] = b; else vf_stk[vf_sp - 1] = b;
}
static yybuffer vf_do_create(int src, int size)
{
	yybuffer h = yy_create_buffer(VF_FAKE(src), size VF_S1);
	int b = vf_new_file_buf(src);
	vf_B[b].h = h; vf_B[b].handle_valid = 1;
	return h;
}
static void vf_after_switch(int b)
{
	vf_model_replace_top(b);
	if (vf_B[b].is_file) { vf_yyin_src = vf_B[b].src; vf_yyin_fresh = 0; }
	else { vf_yyin_src = -1; vf_yyin_fresh = 0; }     /* yyin follows the current buffer; in-memory buffers have no file */
	vf_terminated = 0;
}

/* buffers the user has kept aside: alive, handle known, in no stack slot (left behind by yy_switch_to_buffer) */
static int vf_saved(int *cand)
{
	int b, i, n = 0, on;
	for (b = 0; b < vf_nB; b++) {
		if (!vf_B[b].alive || !vf_B[b].handle_valid) continue;
		for (on = 0, i = 0; i < vf_sp; i++) if (vf_stk[i] == b) on = 1;
		if (!on) cand[n++] = b;
	}
	return n;
}
/* may the current buffer be given a FILE by yyrestart(), or by yywrap() setting yyin and returning 0?  File buffers always; with VF_RESTART_MEM also the scanner's own
 * in-memory buffers (yy_scan_string/bytes), which yylex() itself restarts on yyin when yywrap() returns 0 - not a user array
 * (yy_scan_buffer), which cannot grow */
static int vf_can_take_file(int c)
{
	if (c < 0) return 1;
	if (vf_B[c].is_file) return 1;
#ifdef VF_RESTART_MEM
	return !vf_B[c].user_mem;
#else
	return 0;
#endif
}
/* the manual's older multiple-buffer idiom, at the end of an included source: yy_delete_buffer(YY_CURRENT_BUFFER);
 * yy_switch_to_buffer(saved) - from yywrap() or from an <<EOF>> action */
static void vf_delete_and_switch(int b)
{
	int c = vf_cur();
	VF_GUTS
	vf_log("dS%d ", b, 0);
	yy_delete_buffer(VF_CUR() VF_S1);
	if (VF_CUR() != 0) vf_fail("deleted current buffer is still current", 0, 1);
	vf_B[c].alive = 0; vf_B[c].handle_valid = 0;
	yy_switch_to_buffer(vf_B[b].h VF_S1);
	vf_after_switch(b);
}

/* yywrap: consulted exactly when the current buffer is exhausted */
#if defined(VF_API_NR)
int yywrap(void)
#elif defined(VF_API_R)
int yywrap(yyscan_t yyscanner)
#else
int yywrap(yyscan_t yyscanner)
#endif
{
	int c = vf_cur(), k, ch;
#if defined(VF_API_R)
	struct yyguts_t *yyg = (struct yyguts_t *)yyscanner; (void)yyg;
#endif
	vf_step();
	vf_n_wraps++;
	if (c >= 0) vf_B[c].eof_told = 0;
	if (c >= 0 && vf_B[c].alive && vf_B[c].R.head < vf_B[c].R.tail) vf_fail("yywrap consulted with input left in the current buffer", c, 0);
	k = vf_fresh_src();
	{
		int canmore = (k >= 0 && c >= 0 && vf_can_take_file(c)), canpop = (vf_sp > 1 && c >= 0 && vf_stk[vf_sp - 2] >= 0);
		int cand[VF_NB], nsaved = 0;
#ifdef VF_SAVED_SWITCH
		if (vf_sp == 1 && c >= 0) nsaved = vf_saved(cand);
#endif
		ch = vf_choose(1 + (canmore ? 2 : 0) + (canpop ? 1 : 0) + (nsaved ? 1 : 0), VF_K_CALL);
		if (nsaved && ch == 1 + (canmore ? 2 : 0) + (canpop ? 1 : 0)) {
			vf_delete_and_switch(cand[nsaved > 1 ? vf_choose(nsaved, VF_K_ARG) : 0]);
			return 0;
		}
		if (canpop && ch == 1 + (canmore ? 2 : 0)) {
			/* end of an included buffer handled in yywrap: pop back to the including buffer and go on scanning */
			vf_log("wP ", 0, 0);
#if defined(VF_API_NR)
			yypop_buffer_state();
#else
			yypop_buffer_state(yyscanner);
#endif
			vf_B[c].alive = 0; vf_B[c].handle_valid = 0;
			vf_sp--;
			if (vf_B[vf_cur()].is_file) { vf_yyin_src = vf_B[vf_cur()].src; vf_yyin_fresh = 0; }
			return 0;
		}
	}
	if (ch == 0) {
		vf_log("w1 ", 0, 0);
		if (vf_in_input) { vf_input_eof = 1; return 1; }     /* yyinput() reports the end; the next yylex() meets it again */
		vf_expect_eof_body = (vf_eof_rule[vf_sc] >= 0);
		return 1;
	}
	if (ch == 1) {
		/* point yyin at another source: scanning continues in the same buffer, unchanged condition, at beginning of line */
		vf_log("wI%d ", k, 0);
#if defined(VF_API_NR)
		yyin = VF_FAKE(k);
#elif defined(VF_API_R)
		yyin = VF_FAKE(k);
#else
		yyset_in(VF_FAKE(k), yyscanner);
#endif
		vf_src_used[k] = 1;
		vf_B[c].src = k; vf_B[c].srcpos = 0; vf_B[c].eof_told = 0; vf_B[c].is_file = 1;
		vf_ref_init(&vf_B[c].R, vf_srcs[k].d, vf_srcs[k].n, 0);
		vf_yyin_src = k; vf_yyin_fresh = 0;
		return 0;
	}
	vf_log("wS%d ", k, 0);
	{
#if defined(VF_API_NR)
		yybuffer h = yy_create_buffer(VF_FAKE(k), 16);
		int b = vf_new_file_buf(k);
		vf_B[b].h = h; vf_B[b].handle_valid = 1;
		yy_switch_to_buffer(h);
#else
		yybuffer h = yy_create_buffer(VF_FAKE(k), 16, yyscanner);
		int b = vf_new_file_buf(k);
		vf_B[b].h = h; vf_B[b].handle_valid = 1;
		yy_switch_to_buffer(h, yyscanner);
#endif
		vf_after_switch(b);
	}
	return 0;
}

static int vf_eof_saved;
/* the <<EOF>> action body asks what to do: 0 terminate, 1 pop (terminate if nothing is left), 2 new yyin, 3 return 2 */
static int vf_eof_choice(void)
{
	int k = vf_fresh_src(), n = 4, ch;
#ifdef VF_SAVED_SWITCH
	int cand[VF_NB], nsaved = (vf_sp == 1 && vf_cur() >= 0) ? vf_saved(cand) : 0;
	if (nsaved) n = 5;
#endif
	ch = vf_choose(n, VF_K_CALL);
	if (ch == 2 && (k < 0 || vf_cur() < 0 || !vf_B[vf_cur()].is_file)) ch = 0;
	if (ch == 1 && vf_sp == 0) ch = 0;
	vf_log("e%d ", ch, 0);
#ifdef VF_SAVED_SWITCH
	if (ch == 4) vf_eof_saved = cand[nsaved > 1 ? vf_choose(nsaved, VF_K_ARG) : 0];
#endif
	return ch;
}
static void vf_eof_switch_saved(void) { vf_delete_and_switch(vf_eof_saved); }
static void vf_eof_did_pop(int has_current)
{
	int c = vf_cur();
	if (c >= 0) { vf_B[c].alive = 0; vf_B[c].handle_valid = 0; }
	if (vf_sp > 0) vf_sp--;
	if ((vf_cur() >= 0) != !!has_current) vf_fail("yy_current_buffer() after yypop_buffer_state", vf_cur() >= 0, has_current);
	if (vf_cur() >= 0 && vf_B[vf_cur()].is_file) { vf_yyin_src = vf_B[vf_cur()].src; vf_yyin_fresh = 0; }
}
static int vf_eof_new_yyin(void)
{
	int k = vf_fresh_src(), c = vf_cur();
	vf_src_used[k] = 1;
	vf_B[c].src = k; vf_B[c].srcpos = 0; vf_B[c].eof_told = 0; vf_B[c].is_file = 1;
	vf_ref_init(&vf_B[c].R, vf_srcs[k].d, vf_srcs[k].n, 0);
	vf_yyin_src = k; vf_yyin_fresh = 0;
	return k;
}

/* the include-file idiom: an action pushes a new buffer and scanning continues there */
static int vf_pending_push = -1;
static int vf_action_push(void)
{
#ifdef VF_ACTION_PUSH
	if (vf_exec_ops >= VF_MAX_OPS || vf_fresh_src() < 0 || vf_nB >= VF_NB - 2 || vf_sp >= VF_MAXSTK - 2) return 0;
	if (!vf_choose(2, VF_K_OP)) return 0;
	vf_exec_ops++;
	return 1;
#else
	return 0;
#endif
}
static int vf_action_src(void)
{
	int k = vf_fresh_src();
	vf_pending_push = vf_new_file_buf(k);
	vf_log("aP%d ", k, 0);
	return k;
}
static void vf_action_pushed(void)
{
	VF_GUTS
	int b = vf_pending_push;
	vf_B[b].h = VF_CUR(); vf_B[b].handle_valid = 1;
	vf_stk[vf_sp++] = b;
	vf_yyin_src = vf_B[b].src; vf_yyin_fresh = 0;
}

/* ---- between-call operations ---- */
enum { OP_LEX = 0, OP_CRSWITCH, OP_CRPUSH, OP_POP, OP_SWITCH, OP_FLUSH, OP_DELETE, OP_SCANBYTES, OP_SCANSTRING, OP_SCANBUF, OP_SCANBAD,
       OP_RESTART, OP_NEWYYIN, OP_NOPS };
#ifndef VF_CALLMASK
#define VF_CALLMASK 0xffff
#endif
static char vf_userbuf[4][40];
static int vf_userbuf_n;

static int vf_on_stack_below_top(int b)
{
	int i;
	for (i = 0; i + 1 < vf_sp; i++) if (vf_stk[i] == b) return 1;
	return 0;
}
static int vf_on_stack(int b)
{
	int i;
	for (i = 0; i < vf_sp; i++) if (vf_stk[i] == b) return 1;
	return 0;
}

static int vf_between_calls(void)
{
	/* returns 0 to stop the execution */
	int menu[OP_NOPS], n = 0, i, op, c = vf_cur(), k = vf_fresh_src(), b, cand[VF_NB], nc;
	VF_GUTS
	/* default: lex (or stop once the scanner has terminated and nothing new was supplied) */
	menu[n++] = OP_LEX;
	for (i = 1; i < OP_NOPS; i++) {
		if (!((VF_CALLMASK >> i) & 1)) continue;
		if (vf_exec_ops >= VF_MAX_OPS) break;
		if (vf_pending_yyin) break;     /* the user assigned yyin: the next thing they do is call yylex() */
		if ((i == OP_CRSWITCH || i == OP_CRPUSH || i == OP_RESTART || i == OP_NEWYYIN) && k < 0) continue;
		if ((i == OP_CRPUSH) && vf_sp >= VF_MAXSTK - 2) continue;
		if (i == OP_POP && (vf_sp == 0 || c < 0)) continue;     /* popping after the current buffer was deleted by hand: not described */
		if (i == OP_NEWYYIN && !(vf_terminated || c < 0)) continue;   /* a new yyin is picked up at end of input or when no buffer exists */
		if (i == OP_RESTART && !vf_can_take_file(c)) continue;  /* giving a user array (yy_scan_buffer) a FILE: not described by the manual */
		if (i == OP_NEWYYIN && c >= 0 && !vf_B[c].is_file) continue;  /* only a buffer that reads yyin looks at yyin again after its end */
		if ((i == OP_SCANBYTES || i == OP_SCANSTRING || i == OP_SCANBUF || i == OP_SCANBAD) && (vf_nB >= VF_NB - 2 || vf_userbuf_n >= 4)) continue;
		if ((i == OP_CRSWITCH || i == OP_CRPUSH) && vf_nB >= VF_NB - 2) continue;
		if (i == OP_SWITCH || i == OP_FLUSH || i == OP_DELETE) {
			nc = 0;
			for (b = 0; b < vf_nB; b++) {
				if (!vf_B[b].alive) continue;
				if (i == OP_SWITCH && (vf_on_stack(b) || !vf_B[b].handle_valid)) continue;   /* a buffer sits in at most one stack slot */
				if (i == OP_DELETE && vf_on_stack_below_top(b)) continue;     /* the stack still refers to it */
				if (i == OP_DELETE && b == c && vf_sp > 1) continue;          /* deleting the top of a deeper push-stack by hand: not described */
				if (i != OP_SWITCH && !vf_B[b].handle_valid && b != c) continue;
				nc++;
			}
			if (!nc) continue;
		}
		menu[n++] = i;
	}
#ifdef VF_DEEP
	{
		/* directed history: nest VF_DEEP buffers (one token scanned in each before the next push), then pop them all,
		 * scanning one token after each pop: the buffer stack grows past its initial allocation several times */
		static int phase, pushes, lexnext;
		if (vf_steps <= 1) { phase = 0; pushes = 0; lexnext = 1; }
		if (lexnext) { op = OP_LEX; lexnext = 0; }
		else if (phase == 0 && pushes < VF_DEEP && k >= 0) { op = OP_CRPUSH; pushes++; lexnext = 1; }
		else if (vf_sp > 1) { phase = 1; op = OP_POP; lexnext = 1; }
		else return 0;
		if (op == OP_LEX && vf_terminated) return 0;
	}
#else
	op = menu[vf_choose(n, VF_K_CALL)];
#endif
	vf_n_calls[op]++;
	if (op != OP_LEX) vf_exec_ops++;
	switch (op) {
	case OP_LEX: {
		int r, exp;
		if (vf_terminated) return 0;              /* calling yylex() again without a new source: undefined in the manual */
		if (c < 0 && !(vf_yyin_src >= 0 && vf_yyin_fresh)) return 0;
		if (c < 0 && vf_lexed_once) return 0;     /* yylex() with no current buffer after the first call: not described by the manual */
		vf_lexed_once = 1; vf_pending_yyin = 0;
		if (c < 0) {                             /* yylex() makes a buffer for yyin */
			b = vf_new_file_buf(vf_yyin_src);
			vf_stk[vf_sp > 0 ? vf_sp - 1 : vf_sp++] = b;
			vf_yyin_fresh = 0;
		}
		vf_log("L ", 0, 0);
		r = VF_LEX();
		if (vf_expect_eof_body) vf_fail("the <<EOF>> action of the current condition did not run", vf_sc, r);
		c = vf_cur();
		if (c >= 0 && vf_B[c].alive && !vf_B[c].handle_valid) { vf_B[c].h = VF_CUR(); vf_B[c].handle_valid = 1; }  /* the buffer yylex() made for yyin */
		if (r == 0) {
			/* terminated: the model's current buffer (if any) must be exhausted */
			if (c >= 0 && vf_B[c].alive && vf_B[c].R.head < vf_B[c].R.tail) vf_fail("yylex returned 0 with input left", c, 0);
			vf_terminated = 1;
		} else if (r == 1) {
			vf_terminated = 0;
		} else if (r != 2) {
			vf_fail("unexpected return value of yylex", 1, r);
		}
		(void)exp;
		break; }
	case OP_CRSWITCH: case OP_CRPUSH: {
		int size = vf_choose(2, VF_K_ARG) ? 16 : 1;
		yybuffer h;
		vf_log(op == OP_CRSWITCH ? "CS%d/%d " : "CP%d/%d ", k, size);
		h = vf_do_create(k, size);
		b = vf_nB - 1;
		if (op == OP_CRSWITCH) { yy_switch_to_buffer(h VF_S1); vf_after_switch(b); }
		else { yypush_buffer_state(h VF_S1); if (vf_sp > 0 || 1) vf_stk[vf_sp++] = b; vf_yyin_src = k; vf_yyin_fresh = 0; vf_terminated = 0; }
		break; }
	case OP_POP:
		vf_log("POP ", 0, 0);
		yypop_buffer_state(VF_S0);
		if (c >= 0) { vf_B[c].alive = 0; vf_B[c].handle_valid = 0; }
		vf_sp--;
		if ((VF_CUR() != 0) != (vf_cur() >= 0)) vf_fail("yy_current_buffer() after yypop_buffer_state", vf_cur() >= 0, VF_CUR() != 0);
		if (vf_cur() >= 0) {
			if (!vf_B[vf_cur()].handle_valid) { vf_B[vf_cur()].h = VF_CUR(); vf_B[vf_cur()].handle_valid = 1; }
			else if (VF_CUR() != vf_B[vf_cur()].h) vf_fail("pop did not return to the buffer pushed before", vf_cur(), 0);
			if (vf_B[vf_cur()].is_file) { vf_yyin_src = vf_B[vf_cur()].src; vf_yyin_fresh = 0; }
			vf_terminated = 0;
		}
		break;
	case OP_SWITCH: case OP_FLUSH: case OP_DELETE:
		nc = 0;
		for (b = 0; b < vf_nB; b++) {
			if (!vf_B[b].alive) continue;
			if (op == OP_SWITCH && (vf_on_stack(b) || !vf_B[b].handle_valid)) continue;
			if (op == OP_DELETE && vf_on_stack_below_top(b)) continue;
			if (op == OP_DELETE && b == c && vf_sp > 1) continue;
			if (op != OP_SWITCH && !vf_B[b].handle_valid && b != c) continue;
			cand[nc++] = b;
		}
		b = cand[vf_choose(nc, VF_K_ARG)];
		if (op == OP_SWITCH) {
			vf_log("SW%d ", b, 0);
			yy_switch_to_buffer(vf_B[b].h VF_S1);
			vf_after_switch(b);
		} else if (op == OP_FLUSH) {
			vf_log("FL%d ", b, 0);
			if (!vf_B[b].handle_valid) {           /* the buffer yylex() made for yyin: reachable only as the current buffer */
				if (b != c) break;
				yy_flush_buffer(VF_CUR() VF_S1);
			} else
				yy_flush_buffer(vf_B[b].h VF_S1);
			vf_B[b].eof_told = 0;               /* a flushed buffer is filled anew */
			/* discards only what has been buffered: for a file buffer the bytes already handed over, for an in-memory buffer everything */
			if (vf_B[b].is_file) vf_B[b].R.head = VF_FRONT + vf_B[b].srcpos; else vf_B[b].R.head = vf_B[b].R.tail;
			vf_B[b].R.bol = 1; vf_B[b].R.more_len = 0;
			if (b == c) vf_terminated = 0;
		} else {
			vf_log("DEL%d ", b, 0);
			if (!vf_B[b].handle_valid) {
				if (b != c) break;
				yy_delete_buffer(VF_CUR() VF_S1);
			} else
				yy_delete_buffer(vf_B[b].h VF_S1);
			vf_B[b].alive = 0; vf_B[b].handle_valid = 0;
			if (b == c) { vf_stk[vf_sp - 1] = -1; if (VF_CUR() != 0) vf_fail("deleted current buffer is still current", 0, 1); }
		}
		break;
	case OP_SCANBYTES: case OP_SCANSTRING: {
		int ci = vf_choose(VF_NCONTENT, VF_K_ARG);
		yybuffer h;
		if (op == OP_SCANSTRING && memchr(vf_contents[ci].d, 0, (size_t)vf_contents[ci].n)) ci = 0;
		vf_log(op == OP_SCANBYTES ? "SB%d " : "SS%d ", ci, 0);
		{
			/* the scanner must work on a private copy of exactly the given bytes: hand it a heap block of exactly that size (a
			 * read one byte past it is visible to the sanitizer), scribble over it and free it afterwards */
			size_t nn = (size_t)vf_contents[ci].n + (op == OP_SCANSTRING ? 1 : 0);
			char *tmp = (char *)malloc(nn ? nn : 1);
			if (!tmp) vf_hard_error("malloc failed in the driver");
			memcpy(tmp, vf_contents[ci].d, (size_t)vf_contents[ci].n);
			if (op == OP_SCANSTRING) tmp[vf_contents[ci].n] = 0;
			h = op == OP_SCANBYTES ? yy_scan_bytes(nn ? tmp : tmp + 1, vf_contents[ci].n VF_S1) : yy_scan_string(tmp VF_S1);
			memset(tmp, '#', nn);
			free(tmp);
		}
		if (!h) vf_fail("yy_scan_bytes/string returned NULL", ci, 0);
		b = vf_new_mem_buf(vf_contents[ci].d, vf_contents[ci].n);
		vf_B[b].h = h; vf_B[b].handle_valid = 1;
		if (VF_CUR() != h) vf_fail("yy_scan_* did not switch to the new buffer", b, 0);
		vf_after_switch(b);
		break; }
	case OP_SCANBUF: case OP_SCANBAD: {
		int ci = vf_choose(VF_NCONTENT, VF_K_ARG), nn = vf_contents[ci].n;
		char *tmp = vf_userbuf[vf_userbuf_n++];
		yybuffer h, before = VF_CUR();
		memcpy(tmp, vf_contents[ci].d, (size_t)nn);
		if (op == OP_SCANBUF) { tmp[nn] = 0; tmp[nn + 1] = 0; }
		else {
			/* not "the last two bytes are NUL": either one wrong, or both (round-5 seed C11-r5m3) */
			int bad = vf_choose(3, VF_K_ARG);
			tmp[nn] = bad == 0 ? 0 : 'x'; tmp[nn + 1] = bad == 1 ? 0 : 'y';
		}
		vf_log(op == OP_SCANBUF ? "SU%d " : "SX%d ", ci, 0);
		h = yy_scan_buffer(tmp, (size_t)nn + 2 VF_S1);
		if (op == OP_SCANBAD) {
			if (h) vf_fail("yy_scan_buffer accepted a buffer without the two terminating NULs", ci, 0);
			if (VF_CUR() != before) vf_fail("refused yy_scan_buffer changed the current buffer", 0, 0);
			vf_userbuf_n--;
			break;
		}
		if (!h) vf_fail("yy_scan_buffer refused a well-formed buffer", ci, 0);
		b = vf_new_mem_buf(vf_contents[ci].d, nn);
		vf_B[b].h = h; vf_B[b].handle_valid = 1; vf_B[b].user_mem = 1;
		if (VF_CUR() != h) vf_fail("yy_scan_buffer did not switch to the new buffer", b, 0);
		vf_after_switch(b);
		break; }
	case OP_RESTART:
		vf_log("RS%d ", k, 0);
		yyrestart(VF_FAKE(k) VF_S1);
		vf_src_used[k] = 1;
		if (c < 0) {                 /* yyrestart makes the buffer if there is none */
			b = vf_new_file_buf(k);
			vf_stk[vf_sp > 0 ? vf_sp - 1 : vf_sp++] = b;
			vf_B[b].h = VF_CUR(); vf_B[b].handle_valid = 1;     /* a user who wants to delete it later notes yy_current_buffer() */
		} else {
			vf_B[c].src = k; vf_B[c].srcpos = 0; vf_B[c].eof_told = 0; vf_B[c].is_file = 1;
			vf_ref_init(&vf_B[c].R, vf_srcs[k].d, vf_srcs[k].n, 0);
		}
		vf_yyin_src = k; vf_yyin_fresh = 0; vf_terminated = 0;
		break;
	case OP_NEWYYIN:
		vf_log("IN%d ", k, 0);
		VF_SET_IN(VF_FAKE(k));
		vf_src_used[k] = 1;
		vf_yyin_src = k; vf_yyin_fresh = 1; vf_pending_yyin = 1;
		if (c >= 0 && vf_terminated) {
			/* after termination a new yyin continues in the current buffer: unchanged condition, beginning of line */
			vf_B[c].src = k; vf_B[c].srcpos = 0; vf_B[c].eof_told = 0; vf_B[c].is_file = 1;
			vf_ref_init(&vf_B[c].R, vf_srcs[k].d, vf_srcs[k].n, 0);
			vf_yyin_fresh = 0;
			vf_terminated = 0;
		}
		break;
	}
#ifdef VF_BUF_LINENO
	/* what the user reads back between calls: the count of the buffer that is current now */
	if (vf_cur() >= 0 && vf_B[vf_cur()].alive && VF_CUR() != 0) {
#if defined(VF_API_NR)
		int now = yylineno;
#else
		int now = yyget_lineno(vf_scanner);
#endif
		if (now != VF_LINE(vf_cur())) vf_fail("yylineno read between calls", VF_LINE(vf_cur()), now);
	}
#endif
	return 1;
}

#ifdef VF_LEDGER
static int vf_last_status_b;
static void vf_ledger_end_of_execution(void)
{
	int b;
	VF_GUTS
	vf_ledger_msg[0] = 0;
	if (vf_last_status_b == VF_ST_DONE) {
		/* the user deletes their own buffers that are not on the stack, then destroys the scanner: nothing may be left */
		for (b = 0; b < vf_nB; b++)
			if (vf_B[b].alive && vf_B[b].handle_valid && !vf_on_stack(b)) yy_delete_buffer(vf_B[b].h VF_S1);
#if defined(VF_API_NR)
		yylex_destroy();
#else
		if (vf_scanner) { yylex_destroy(vf_scanner); vf_scanner = 0; }
#endif
		vf_ledger_check_empty();
		if (vf_ledger_msg[0]) {
			vf_n_mismatch++;
			if (vf_reported < 5) {
				vf_reported++;
				fprintf(vf_out, "{\"viol\":\"ledger\",\"group\":0,\"history\":\"%s\",\"choices\":[],\"what\":\"%s\"}\n", vf_hist, vf_ledger_msg);
			}
		}
	} else {
#if defined(VF_API_NR)
		yylex_destroy();
#else
		if (vf_scanner) { yylex_destroy(vf_scanner); vf_scanner = 0; }
#endif
		vf_ledger_abandon();
	}
	vf_ledger_msg[0] = 0;
	vf_ledger_reset_counts();
}
#endif

static void vf_report(int st)
{
	int i;
	if (st == VF_ST_FATAL && vf_expected_fatal && strstr(vf_fatal_msg, vf_expected_fatal)) { vf_n_expected_fatal++; return; }
	if (st == VF_ST_HORIZON) { vf_n_horizon++; return; }
	if (st == VF_ST_MISMATCH) vf_n_mismatch++; else vf_n_fatal++;
	if (vf_reported >= 5) return;
	vf_reported++;
	fprintf(vf_out, "{\"viol\":\"%s\",\"group\":0,\"history\":\"%s\",\"choices\":[", st == VF_ST_FATAL ? "fatal" : "mismatch", vf_hist);
	for (i = 0; i < vf_tr_len; i++) fprintf(vf_out, "%s%d", i ? "," : "", vf_tr_choice[i]);
	fprintf(vf_out, "],\"kinds\":[");
	for (i = 0; i < vf_tr_len; i++) fprintf(vf_out, "%s%d", i ? "," : "", vf_tr_kind[i]);
	if (st == VF_ST_FATAL) fprintf(vf_out, "],\"msg\":\"%s\"}\n", vf_fatal_msg);
	else fprintf(vf_out, "],\"what\":\"%s\",\"exp\":%d,\"obs\":%d,\"sc\":%d}\n", vf_mm_what, vf_mm_a, vf_mm_b, vf_sc);
}

static void vf_run_one(void)
{
	int st, i;
	for (i = 0; i < vf_nB; i++) { free(vf_B[i].R.buf); vf_B[i].R.buf = 0; vf_B[i].R.cap = 0; }
	vf_nB = 0; vf_sp = 0; vf_sc = 0; vf_yyin_src = -1; vf_yyin_fresh = 0; vf_terminated = 0; vf_steps = 0; vf_lexed_once = 0; vf_pending_yyin = 0; vf_expect_eof_body = 0;
	vf_line_g = 1; vf_in_input = 0; vf_input_eof = 0;
	vf_hist_len = 0; vf_hist[0] = 0; vf_expected_fatal = 0; vf_exec_ops = 0; vf_exec_bufs = 0; vf_userbuf_n = 0;
	memset(vf_src_used, 0, sizeof vf_src_used);
#ifdef VF_EXPECT_FATAL
	vf_expected_fatal = VF_EXPECT_FATAL;
#endif
	st = setjmp(vf_jmp);
	if (st == 0) {
		vf_in_scanner = 1;
		vf_fresh();
		/* like a user's main(): point yyin at the first source */
		VF_SET_IN(VF_FAKE(0));
		vf_src_used[0] = 1; vf_yyin_src = 0; vf_yyin_fresh = 1;
		while (vf_between_calls()) vf_step();
		vf_in_scanner = 0;
	} else {
		vf_in_scanner = 0;
		vf_report(st - 1);
	}
	if (vf_exec_ops >= 1 && vf_exec_bufs >= 2) vf_n_nontrivial++;
#ifdef VF_LEDGER
	vf_last_status_b = st ? st - 1 : VF_ST_DONE;
	vf_ledger_end_of_execution();
#endif
}

#include <sys/time.h>
/* the watchdog counts the CPU time of this process, not wall-clock time: a scanner that loops burns CPU and is caught, a
 * process that is merely not scheduled (a loaded machine) is not mistaken for one */
static void vf_arm_watchdog(unsigned secs)
{
	struct itimerval it;
	it.it_interval.tv_sec = 0; it.it_interval.tv_usec = 0;
	it.it_value.tv_sec = (long)secs; it.it_value.tv_usec = 0;
	setitimer(ITIMER_PROF, &it, (struct itimerval *)0);
}
static volatile long vf_wd_last = -1; static volatile int vf_wd_same;
static void vf_watchdog(int sig)
{
	(void)sig;
	if (vf_in_scanner && vf_wd_last == vf_executions) {
		if (++vf_wd_same >= 2) {
			fprintf(vf_out, "{\"viol\":\"hang\",\"group\":0,\"history\":\"%s\",\"what\":\"no progress for 4 s\"}\n", vf_hist);
			fprintf(vf_out, "{\"summary\":1,\"aborted\":\"hang\",\"executions\":%ld,\"mismatches\":%ld}\n", vf_executions, vf_n_mismatch + 1);
			fflush(vf_out);
			_exit(0);
		}
	} else { vf_wd_same = 0; vf_wd_last = vf_executions; }
	vf_arm_watchdog(2);
}

int main(int argc, char **argv)
{
	int i, bound;
	vf_out = stdout;
	for (i = 1; i < argc; i++) {
		if (!strcmp(argv[i], "-o") && i + 1 < argc) vf_out = fopen(argv[++i], "w");
		else if (!strcmp(argv[i], "-H") && i + 1 < argc) vf_horizon = atol(argv[++i]);
		else if (!strcmp(argv[i], "-T") && i + 1 < argc) vf_deadline = time((time_t *)0) + atol(argv[++i]);
	}
	if (!vf_out) return 5;
	signal(SIGPROF, vf_watchdog);
	vf_arm_watchdog(2);
	for (i = 0; i < VF_NKINDS; i++) vf_budget[i] = VF_BUDGET_DEFAULT;
	vf_budget[VF_K_ARG] = 1000; vf_kind_free[VF_K_ARG] = 1;
#ifdef VF_DEEP
	vf_explore_off = 1;
	vf_horizon = 100000;
#endif
	for (bound = 0; bound <= VF_BUDGET_TOTAL; bound++) {
		vf_budget_total = bound;
		vf_n_tokens = vf_n_mismatch = vf_n_fatal = vf_n_horizon = vf_n_reads = vf_n_eof_actions = vf_n_wraps = vf_n_inputs = vf_n_input_eofs = 0;
		vf_executions = vf_choice_points = vf_n_expected_fatal = vf_n_nontrivial = 0;
		memset(vf_n_calls, 0, sizeof vf_n_calls);
		vf_reported = 0;
		vf_explore(vf_run_one);
		if (vf_n_mismatch + vf_n_fatal > 0 || vf_timed_out) break;
	}
	vf_fresh();
	fprintf(vf_out, "{\"summary\":1,\"timed_out\":%d,\"executions\":%ld,\"tokens\":%ld,\"mismatches\":%ld,\"fatals\":%ld,\"horizons\":%ld,\"reads\":%ld,"
		"\"eof_actions\":%ld,\"yywraps\":%ld,\"choice_points\":%ld,\"overflow\":%d,\"bound\":%d,\"nontrivial\":%ld,\"expected_fatals\":%ld,\"inputs\":%ld,\"input_eofs\":%ld,\"calls\":[",
		vf_timed_out, vf_executions, vf_n_tokens, vf_n_mismatch, vf_n_fatal, vf_n_horizon, vf_n_reads, vf_n_eof_actions, vf_n_wraps, vf_choice_points,
		vf_overflow, bound > VF_BUDGET_TOTAL ? VF_BUDGET_TOTAL : bound, vf_n_nontrivial, vf_n_expected_fatal, vf_n_inputs, vf_n_input_eofs);
	for (i = 0; i < OP_NOPS; i++) fprintf(vf_out, "%s%ld", i ? "," : "", vf_n_calls[i]);
	fprintf(vf_out, "]");
#ifdef VF_LEDGER
	fprintf(vf_out, ",\"ledger_checks\":%ld,\"ledger_allocs\":%ld,\"ledger_errors\":%ld,\"ledger_leaks\":%ld", vf_ledger_checks, vf_ledger_allocs_total,
		vf_ledger_errors, vf_ledger_leaks);
#endif
	fprintf(vf_out, "}\n");
	fclose(vf_out);
	return 0;
}
#endif
