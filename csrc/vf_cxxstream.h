/* vf_cxxstream.h - section 3 of a C++ scanner that keeps the stock LexerInput(): the input is a
 * std::istream over a streambuf the driver controls (chunk size per underflow(), an exception at
 * the K-th underflow()).  Serves C10 (end-of-input / restart histories on C++ streams) and C14
 * (read errors of the C++ input path).
 *
 *   s.exe faults      every (chunk, K): the K-th underflow() throws -> the scanner must stop through LexerError
 *   s.exe histories   every sequence of <= 3 re-supply operations after end of input
 */
#include <iostream>
#include <streambuf>
#include <string>
#include <vector>
#include <cstring>
#include <cstdio>

struct VfFatal { std::string msg; };

class VfBuf : public std::streambuf {
public:
	std::string data; size_t pos; int chunk; long calls, fail_at; char hold[8192];
	VfBuf() : pos(0), chunk(1), calls(0), fail_at(-1) { }
	void arm(const std::string &d, int ch, long failat) { data = d; pos = 0; chunk = ch; calls = 0; fail_at = failat; setg(hold, hold, hold); }
protected:
	virtual int_type underflow()
	{
		size_t n;
		if (gptr() < egptr()) return traits_type::to_int_type(*gptr());
		if (fail_at >= 0 && calls == fail_at) { calls++; throw std::ios_base::failure("injected device error"); }
		calls++;
		n = data.size() - pos;
		if (n > (size_t)chunk) n = (size_t)chunk;
		if (n > sizeof hold) n = sizeof hold;
		if (!n) return traits_type::eof();
		memcpy(hold, data.data() + pos, n);
		pos += n;
		setg(hold, hold, hold + n);
		return traits_type::to_int_type(hold[0]);
	}
};

static int vf_n_eof;

class VfLexer : public yyFlexLexer {
public:
	VfLexer(std::istream *in) : yyFlexLexer(in, 0) { }
	virtual void LexerError(const char *m) { VfFatal f; f.msg = m ? m : ""; throw f; }
	virtual void LexerOutput(const char *, int) { }
};

/* the reference tokeniser of the rule set in vflib/cxxstream.py: [a-z]+ -> 1, [ \n]+ -> 2, . -> 3 */
static std::string vf_expect(const std::string &s)
{
	std::string out; size_t i = 0; char b[64];
	while (i < s.size()) {
		size_t j = i; int r;
		if (s[i] >= 'a' && s[i] <= 'z') { while (j < s.size() && s[j] >= 'a' && s[j] <= 'z') j++; r = 1; }
		else if (s[i] == ' ' || s[i] == '\n') { while (j < s.size() && (s[j] == ' ' || s[j] == '\n')) j++; r = 2; }
		else { j = i + 1; r = 3; }
		snprintf(b, sizeof b, "%d:%d ", r, (int)(j - i)); out += b; i = j;
	}
	return out;
}

/* scan until yylex() returns 0; returns the token string; sets fatal */
static std::string vf_scan(VfLexer &L, bool &fatal, std::string &msg)
{
	std::string out; char b[64]; int t;
	fatal = false;
	try {
		while ((t = L.yylex()) != 0) { snprintf(b, sizeof b, "%d:%d ", t, (int)L.YYLeng()); out += b; }
	} catch (VfFatal &f) { fatal = true; msg = f.msg; }
	return out;
}

static int vf_faults(void)
{
	static const int chunks[] = { 1, 2, 3, 7, 8192 };
	std::string data;
	int bad = 0; long cases = 0;
	for (int i = 0; i < 40; i++) data += (i % 3 == 0) ? "ab cd\n" : (i % 3 == 1) ? "x,y zz" : " q\n\n";
	for (size_t c = 0; c < sizeof chunks / sizeof chunks[0]; c++) {
		long reads_needed = (long)((data.size() + (size_t)chunks[c] - 1) / (size_t)chunks[c]) + 1;
		for (long k = 0; k <= reads_needed; k++) {
			VfBuf buf; buf.arm(data, chunks[c], k);
			std::istream in(&buf);
			VfLexer L(&in);
			bool fatal; std::string msg, got;
			vf_n_eof = 0;
			got = vf_scan(L, fatal, msg);
			cases++;
			bool reached = buf.calls > k;       /* the failing underflow() was actually called */
			std::string exp = vf_expect(data.substr(0, buf.pos));
			if (reached && !fatal) {
				printf("V fault chunk=%d k=%ld: the stream went bad() at read %ld, the scanner did not stop through LexerError (saw_eof=%d, tokens for %lu of %lu bytes)\n",
				       chunks[c], k, k, vf_n_eof, (unsigned long)buf.pos, (unsigned long)data.size());
				bad++;
			} else if (!reached && (fatal || got != vf_expect(data))) {
				printf("V fault chunk=%d k=%ld: no fault was injected but fatal=%d msg=%s tokens differ=%d\n", chunks[c], k, (int)fatal, msg.c_str(), (int)(got != vf_expect(data)));
				bad++;
			} else if (reached && exp.compare(0, got.size(), got) != 0 && got.compare(0, exp.size(), exp) != 0) {
				/* tokens delivered before the error must agree with the bytes delivered (the last token may be cut) */
				size_t common = 0; while (common < got.size() && common < exp.size() && got[common] == exp[common]) common++;
				size_t lastsp = got.rfind(' ', got.size() >= 2 ? got.size() - 2 : 0);
				if (lastsp != std::string::npos && common < lastsp) { printf("V fault chunk=%d k=%ld: tokens before the error differ: got [%s] expected prefix of [%s]\n", chunks[c], k, got.c_str(), exp.c_str()); bad++; }
			}
			if (bad > 5) { printf("DONE faults cases=%ld violations=%d\n", cases, bad); return 1; }
		}
	}
	printf("DONE faults cases=%ld violations=%d\n", cases, bad);
	return bad ? 1 : 0;
}

/* re-supply operations after the scanner has seen end of input */
enum { OP_RESTART_SAME, OP_SWITCH_SAME, OP_RESTART_NEW, OP_SWITCH_NEW, OP_RESTART_SAME_REF, OP_LEX_AGAIN, NOPS };
static const char *vf_opname[] = { "yyrestart(same stream, re-armed)", "switch_streams(same stream, re-armed)", "yyrestart(new stream)", "switch_streams(new stream)",
                                   "yyrestart(same stream by reference)", "yylex() again" };

static int vf_histories(int maxdepth)
{
	static const char *src[] = { "ab cd\n", "ef g", "\nhij k,l", "" };
	static const int chunks[] = { 1, 3, 8192 };
	int bad = 0; long cases = 0;
	for (size_t c = 0; c < sizeof chunks / sizeof chunks[0]; c++)
	for (int depth = 1; depth <= maxdepth; depth++) {
		int n = 1;
		for (int d = 0; d < depth; d++) n *= NOPS;
		for (int code = 0; code < n; code++) {
			int ops[8], x = code;
			for (int d = 0; d < depth; d++) { ops[d] = x % NOPS; x /= NOPS; }
			VfBuf buf, buf2[8]; std::istream in(&buf); std::istream *extra[8];
			buf.arm(src[0], chunks[c], -1);
			VfLexer L(&in);
			bool fatal; std::string msg, got, hist;
			vf_n_eof = 0;
			got = vf_scan(L, fatal, msg);
			cases++;
			if (fatal || got != vf_expect(src[0])) { printf("V history chunk=%d first scan: fatal=%d got [%s] expected [%s]\n", chunks[c], (int)fatal, got.c_str(), vf_expect(src[0]).c_str()); bad++; continue; }
			int nextsrc = 1;
			for (int d = 0; d < depth && bad < 6; d++) {
				const char *s = src[nextsrc % 4];
				std::string exp;
				int eof_before = vf_n_eof;
				extra[d] = 0;
				hist += vf_opname[ops[d]]; hist += "; ";
				switch (ops[d]) {
				case OP_RESTART_SAME: in.clear(); buf.arm(s, chunks[c], -1); L.yyrestart(&in); exp = vf_expect(s); nextsrc++; break;
				case OP_RESTART_SAME_REF: in.clear(); buf.arm(s, chunks[c], -1); L.yyrestart(in); exp = vf_expect(s); nextsrc++; break;
				case OP_SWITCH_SAME: in.clear(); buf.arm(s, chunks[c], -1); L.switch_streams(&in, 0); exp = vf_expect(s); nextsrc++; break;
				case OP_RESTART_NEW: buf2[d].arm(s, chunks[c], -1); extra[d] = new std::istream(&buf2[d]); L.yyrestart(extra[d]); exp = vf_expect(s); nextsrc++; break;
				case OP_SWITCH_NEW: buf2[d].arm(s, chunks[c], -1); extra[d] = new std::istream(&buf2[d]); L.switch_streams(extra[d], 0); exp = vf_expect(s); nextsrc++; break;
				default: exp = ""; break;     /* yylex() again: end of input again, the EOF action runs again, no token */
				}
				got = vf_scan(L, fatal, msg);
				if (fatal || got != exp || vf_n_eof != eof_before + 1) {
					printf("V history chunk=%d after [%s]: fatal=%d(%s) got [%s] expected [%s] eof_actions=%d (expected %d)\n", chunks[c], hist.c_str(), (int)fatal, msg.c_str(),
					       got.c_str(), exp.c_str(), vf_n_eof, eof_before + 1);
					bad++;
					break;
				}
			}
			for (int d = 0; d < depth; d++) { /* streams outlive the lexer's use of them only until here */ }
		}
	}
	printf("DONE histories cases=%ld violations=%d\n", cases, bad);
	return bad ? 1 : 0;
}

int main(int argc, char **argv)
{
	setvbuf(stdout, 0, _IOLBF, 0);
	if (argc >= 2 && !strcmp(argv[1], "faults")) return vf_faults();
	if (argc >= 3 && !strcmp(argv[1], "histories")) return vf_histories(atoi(argv[2]));
	return 2;
}
