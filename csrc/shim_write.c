/* shim_write.c - LD_PRELOAD fault injector for C16: the VF_FAIL_AT-th write() (or, with
 * VF_FAIL_CLOSE=1, the first close()) on a file whose path contains VF_FAIL_PATH fails with ENOSPC.
 * The counter lives in a file (VF_FAIL_COUNTER) because flex's filter chain is several processes. */
#define _GNU_SOURCE
#include <dlfcn.h>
#include <errno.h>
#include <stdio.h>
#include <stdlib.h>
#include <string.h>
#include <unistd.h>
#include <fcntl.h>
#include <sys/file.h>

static ssize_t (*real_write)(int, const void *, size_t);
static int (*real_close)(int);

static int target(int fd)
{
	char link[64], path[512];
	const char *want = getenv("VF_FAIL_PATH");
	ssize_t n;
	if (!want || !*want) return 0;
	snprintf(link, sizeof link, "/proc/self/fd/%d", fd);
	n = readlink(link, path, sizeof path - 1);
	if (n <= 0) return 0;
	path[n] = 0;
	return strstr(path, want) != 0;
}

static long bump(void)
{
	const char *cf = getenv("VF_FAIL_COUNTER");
	long v = 0;
	int fd;
	char buf[32];
	if (!cf) return -1;
	fd = open(cf, O_RDWR | O_CREAT, 0600);
	if (fd < 0) return -1;
	flock(fd, LOCK_EX);
	if (read(fd, buf, sizeof buf - 1) > 0) v = atol(buf);
	v++;
	lseek(fd, 0, SEEK_SET);
	snprintf(buf, sizeof buf, "%ld\n", v);
	if (!real_write) real_write = (ssize_t (*)(int, const void *, size_t))dlsym(RTLD_NEXT, "write");
	real_write(fd, buf, strlen(buf));
	flock(fd, LOCK_UN);
	if (!real_close) real_close = (int (*)(int))dlsym(RTLD_NEXT, "close");
	real_close(fd);
	return v;
}

ssize_t write(int fd, const void *buf, size_t n)
{
	if (!real_write) real_write = (ssize_t (*)(int, const void *, size_t))dlsym(RTLD_NEXT, "write");
	if (target(fd) && !getenv("VF_FAIL_CLOSE")) {
		long k = bump(), at = atol(getenv("VF_FAIL_AT") ? getenv("VF_FAIL_AT") : "0");
		if (at > 0 && k == at) { errno = ENOSPC; return -1; }
	}
	return real_write(fd, buf, n);
}

int close(int fd)
{
	if (!real_close) real_close = (int (*)(int))dlsym(RTLD_NEXT, "close");
	if (getenv("VF_FAIL_CLOSE") && target(fd)) {
		long k = bump();
		if (k == 1) { real_close(fd); errno = ENOSPC; return -1; }
	}
	return real_close(fd);
}
