/* vf_driver.h - section 3 of a generated harness scanner.
 *
 * Included after the scanner body, so yylex(), the tables and every static
 * are in scope.  Before it the .l file includes refscan.h and the generated
 * vf_tables.h (reference DFAs, groups, per-harness knobs).
 *
 * For every group (an independent rule set living in its own start
 * conditions) and every input of the group's bounded-exhaustive input set,
 * the real scanner and the reference model run in lock step: at every action
 * the rule number, yyleng, the bytes of yytext, the start condition and
 * (optionally) yylineno are compared.
 */
#ifndef VF_DRIVER_H
#define VF_DRIVER_H
#include "explorer.h"

enum { VF_ST_DONE = 0, VF_ST_FATAL = 1, VF_ST_HORIZON = 2, VF_ST_MISMATCH = 3, VF_ST_INITFAIL = 4 };

static jmp_buf vf_jmp;
static int vf_in_yylex;
static const unsigned char *vf_in;
static int vf_in_len, vf_in_pos;
static vf_ref vf_R;
static const vf_group *vf_g;
static long vf_steps, vf_horizon = 4000;
static char vf_fatal_msg[256];
static FILE *vf_out;
static int vf_cur_more_prefix;      /* bytes of yytext carried over by yymore() */
static int vf_act_ops, vf_act_io, vf_act_did_input, vf_act_did[16];   /* operations already performed in the current action */
static int vf_pushed_back, vf_need_max;
static int vf_last_status;
static int vf_pre_pending;           /* a pre-action ran and no action body has run since */
static int vf_prev_act; static const char *vf_prev_text; static long vf_prev_leng, vf_prev_reads, vf_prev_calls, vf_lex_calls, vf_n_dup_preaction;
static int vf_rej_newlines;          /* newlines in text given back by yyreject() so far in this execution */
static int vf_frozen_line = 1;       /* scanners without %option yylineno must never change the line number */
#ifdef VF_LINENO_FROZEN
#define VF_EXPECTED_LINE vf_frozen_line
#else
#define VF_EXPECTED_LINE vf_R.lineno
#endif
static long vf_n_overread_checks;
static int vf_bufsize;               /* 0: the scanner's default buffer */
static const char *vf_expected_fatal; /* substring of a fatal message the model predicts, or NULL */

/* counters */
static long vf_n_tokens, vf_n_mismatch, vf_n_fatal, vf_n_horizon, vf_n_nontrivial, vf_n_inputs;
static long vf_n_reads, vf_n_eof;
static int vf_tok_in_exec, vf_rules_in_exec[4], vf_nrules_in_exec;
static int vf_reported_in_group;
#ifndef VF_MAX_REPORT_PER_GROUP
#define VF_MAX_REPORT_PER_GROUP 2
#endif

/* mismatch details */
static struct {
	const char *what; int tokidx;
	int exp_rule, exp_len, obs_rule, obs_len, exp_sc, obs_sc, exp_line, obs_line;
	unsigned char exp_text[64], obs_text[64]; int exp_tl, obs_tl;
} vf_mm;

/* edge coverage of the reference automata: (dfa, state, class) */
static unsigned char *vf_edge_seen; static long vf_edges_total, vf_edges_live, vf_edges_seen_n, vf_states_total;
static int *vf_dfa_edge_base;

static void vf_hard_error(const char *why)
{
	fprintf(vf_out ? vf_out : stdout, "{\"hard_error\":\"%s\"}\n", why);
	fflush(vf_out ? vf_out : stdout);
	exit(4);
}

static void vf_hex(FILE *f, const unsigned char *s, int n)
{
	int i;
	fputc('"', f);
	for (i = 0; i < n; i++) fprintf(f, "%02x", s[i]);
	fputc('"', f);
}

static void vf_leave(int st)
{
	if (vf_in_yylex)
		longjmp(vf_jmp, st + 1);
	vf_hard_error("vf_leave outside yylex");
}

static void vf_fatal(const char *msg)
{
	strncpy(vf_fatal_msg, msg ? msg : "", sizeof vf_fatal_msg - 1);
	vf_leave(VF_ST_FATAL);
	abort();
}

static void vf_step(void)
{
	if (++vf_steps > vf_horizon)
		vf_leave(VF_ST_HORIZON);
}

static int vf_next_chunk(size_t max_size);
static int vf_read(char *buf, size_t max_size)
{
	int n;
	vf_step();
	vf_n_reads++;
	n = vf_next_chunk(max_size);
	if (n > 0) memcpy(buf, vf_in + vf_in_pos, (size_t)n);
	vf_in_pos += n;
	return n;
}

#if defined(VF_API_C99)
#ifndef VF_DEFAULT_INPUT
static int yyread(char *buf, size_t max_size, struct yyguts_t *yyscanner) { (void)yyscanner; return vf_read(buf, max_size); }
#endif
static void yypanic(const char *msg, struct yyguts_t *yyscanner) { (void)yyscanner; vf_fatal(msg); }
#endif

/* ---- answers for the scanner's own yyread() (VF_DEFAULT_INPUT) ---- */
static int vf_err_flag;           /* what ferror() reports */
static int vf_next_chunk(size_t max_size)
{
	int avail = vf_in_len - vf_in_pos, n = avail;
	if ((size_t)n > max_size) n = (int)max_size;
#ifdef VF_READ_CHOICES
	if (n > 1) {
		int lim = n > VF_READ_CHOICES ? VF_READ_CHOICES : n;
		n -= vf_choose(lim, VF_K_READ);
	}
#endif
#ifdef VF_READ_ONE
	if (n > VF_READ_ONE) n = VF_READ_ONE;
#endif
	return n;
}
/* injected read faults (C14): at the vf_fault_read-th read request of the execution */
enum { VF_F_NONE = 0, VF_F_EINTR1, VF_F_EINTR2, VF_F_HARD, VF_F_PARTIAL, VF_F_PARTHARD, VF_F_NKINDS };
static long vf_exec_reads, vf_fault_read, vf_last_reads, vf_last_allocs; static int vf_fault_kind, vf_fault_left;
static int vf_fault_now(void)
{
	if (vf_fault_left > 0) { vf_fault_left--; return vf_fault_kind; }      /* the same request interrupted again */
	vf_exec_reads++;
	if (vf_fault_kind && vf_exec_reads == vf_fault_read) {
		vf_fault_left = (vf_fault_kind == VF_F_EINTR2) ? 1 : 0;
		return vf_fault_kind;
	}
	return 0;
}
#ifdef VF_DEFAULT_INPUT
static size_t vf_fread(void *p, size_t sz, size_t n, FILE *f)
{
	int k, flt;
	(void)f; (void)sz;
	vf_step(); vf_n_reads++;
	flt = vf_fault_now();
	if (flt == VF_F_EINTR1 || flt == VF_F_EINTR2) { vf_err_flag = 1; errno = EINTR; return 0; }
	if (flt == VF_F_HARD) { vf_err_flag = 1; errno = EIO; return 0; }
	if (flt == VF_F_PARTIAL || flt == VF_F_PARTHARD) {
		/* a signal - or a hard error - arrives after part of the request has been collected: short count, error indicator set */
		k = vf_next_chunk(n);
		if (k > 1) k = k / 2;
		if (k > 0) memcpy(p, vf_in + vf_in_pos, (size_t)k);
		vf_in_pos += k; vf_err_flag = 1; errno = (flt == VF_F_PARTIAL) ? EINTR : EIO;
		return (size_t)k;
	}
	k = vf_next_chunk(n);
	if (k > 0) memcpy(p, vf_in + vf_in_pos, (size_t)k);
	vf_in_pos += k;
	return (size_t)k;
}
static int vf_getc(FILE *f)
{
	int flt;
	(void)f;
	vf_n_reads++;
	flt = vf_fault_now();
	if (flt == VF_F_EINTR1 || flt == VF_F_EINTR2) { vf_err_flag = 1; errno = EINTR; return EOF; }
	if (flt == VF_F_HARD || flt == VF_F_PARTIAL || flt == VF_F_PARTHARD) { vf_err_flag = 1; errno = EIO; return EOF; }
	if (vf_in_pos >= vf_in_len) { vf_step(); return EOF; }
	return vf_in[vf_in_pos++];
}
static int vf_ferror(FILE *f) { (void)f; return vf_err_flag; }
static void vf_clearerr(FILE *f) { (void)f; vf_err_flag = 0; }
static int vf_isatty(int fd) { (void)fd; return VF_DEFAULT_INPUT == 2; }
static long vf_sysread(int fd, void *buf, size_t n)
{
	int k, flt;
	(void)fd;
	vf_step(); vf_n_reads++;
	flt = vf_fault_now();
	if (flt == VF_F_EINTR1 || flt == VF_F_EINTR2) { errno = EINTR; return -1; }
	if (flt == VF_F_HARD || flt == VF_F_PARTIAL || flt == VF_F_PARTHARD) { errno = EIO; return -1; }
	k = vf_next_chunk(n);
	if (k > 0) memcpy(buf, vf_in + vf_in_pos, (size_t)k);
	vf_in_pos += k;
	return k;
}
#endif

static void vf_mismatch(const char *what, int obs_rule, const char *text, long leng, int start, int lineno)
{
	vf_mm.what = what; vf_mm.tokidx = vf_tok_in_exec;
	vf_mm.exp_rule = vf_R.rule; vf_mm.exp_len = vf_R.nsplit ? vf_R.split[vf_R.nsplit - 1] : -1;
	vf_mm.obs_rule = obs_rule; vf_mm.obs_len = (int)leng;
	vf_mm.exp_sc = vf_R.sc; vf_mm.obs_sc = start;
	vf_mm.exp_line = vf_R.lineno; vf_mm.obs_line = lineno;
	vf_mm.exp_tl = vf_R.text_len > 64 ? 64 : vf_R.text_len;
	memcpy(vf_mm.exp_text, vf_R.text, (size_t)vf_mm.exp_tl);
	vf_mm.obs_tl = leng > 64 ? 64 : (leng < 0 ? 0 : (int)leng);
	if (text) memcpy(vf_mm.obs_text, text, (size_t)vf_mm.obs_tl);
	vf_leave(VF_ST_MISMATCH);
}

static void vf_mark_edges(void)
{
	/* mark the reference edges the selected token walked over */
	int di = vf_start[vf_R.sc][vf_R.bol ? 1 : 0];
	const vf_dfa *d = &vf_dfas[di];
	const unsigned char *s = vf_R.buf + vf_R.head;
	int avail = vf_R.tail - vf_R.head, q = 0, i;
	for (i = 0; i < avail; i++) {
		int c = vf_cls[s[i]];
		long e = vf_dfa_edge_base[di] + (long)q * VF_NCLS + c;
		q = d->tr[q * VF_NCLS + c];
		if (q < 0) break;       /* only live edges are counted; jams are the default-rule path */
		if (!vf_edge_seen[e]) { vf_edge_seen[e] = 1; vf_edges_seen_n++; }
	}
}

#ifdef VF_WITH_OPS
static void vf_ops_after_match(int act);
#endif

static void vf_act(int act, const char *text, long leng, int start, int lineno, int atbol)
{
	int seg;
	vf_step();
	(void)atbol;
	/* A rule whose action is '|' falls through into the next rule's arm; the rule set-up, and with it the pre-action
	 * (YY_USER_ACTION), belongs to the arm it falls into only.  A second pre-action for the same match (same rule and
	 * length, no action body - every harness action starts with vf_body() - in between) means the hook ran twice. */
	if (vf_pre_pending && vf_prev_act == act && vf_prev_leng == leng && vf_prev_calls == vf_lex_calls && vf_act_ops == 0
	    && act <= VF_NRULES && (vf_rules[act].flags & 2)) {
		vf_n_dup_preaction++;
		vf_mismatch("pre-action ran twice for one match of a rule with a '|' action", act, text, leng, start, lineno);
	}
	vf_pre_pending = 1;
	vf_prev_act = act; vf_prev_text = text; vf_prev_leng = leng; vf_prev_reads = vf_n_reads; vf_prev_calls = vf_lex_calls;
	vf_act_ops = vf_act_io = vf_act_did_input = 0; memset(vf_act_did, 0, sizeof vf_act_did);
	if (act > (int)YY_END_OF_BUFFER) {            /* an <<EOF>> action */
		vf_n_eof++;
		if (vf_R.head < vf_R.tail) {
			vf_ref_match(&vf_R);
			vf_mismatch("EOF action with input left", act, text, 0, start, lineno);
		}
		if (start != vf_R.sc)
			vf_mismatch("start condition at EOF", act, text, 0, start, lineno);
		return;
	}
	if (vf_R.rejecting) {
		vf_ref_next_candidate(&vf_R);
	} else if (!vf_ref_match(&vf_R)) {
		vf_R.rule = 0; vf_R.nsplit = 0;
		vf_mismatch("token after end of input", act, text, leng, start, lineno);
	}
#ifndef VF_NO_EDGE_COVER
	vf_mark_edges();
#endif
#ifdef VF_CHECK_OVERREAD
	{
		/* bytes the scanner may have asked for when this action runs: from the start of the token,
		 * up to and including the first byte that kills every longer match (or fewer, if the state
		 * reached has no out-transition at all), or the end of input */
		const vf_dfa *d = &vf_dfas[vf_start[vf_R.sc][vf_R.bol ? 1 : 0]];
		const unsigned char *s = vf_R.buf + vf_R.head;
		int avail = vf_R.tail - vf_R.head, q = 0, i, need = 0, c, any;
		for (i = 0; i < avail; i++) {
			any = 0;
			for (c = 0; c < VF_NCLS; c++) if (d->tr[q * VF_NCLS + c] >= 0) { any = 1; break; }
			if (!any && i > 0) break;
			need = i + 1;
			q = d->tr[q * VF_NCLS + vf_cls[s[i]]];
			if (q < 0) break;
		}
		if (!vf_R.rejecting && vf_pushed_back == 0) {
			int consumed_before = vf_in_len - avail;
			/* look-ahead legitimately requested for an earlier token stays requested */
			if (consumed_before + need > vf_need_max) vf_need_max = consumed_before + need;
			if (vf_in_pos > vf_need_max) {
				vf_mm.what = "interactive scanner asked for input beyond the end of the longest possible match";
				vf_mm.tokidx = vf_tok_in_exec; vf_mm.exp_rule = vf_R.rule; vf_mm.obs_rule = act;
				vf_mm.exp_len = vf_need_max; vf_mm.obs_len = vf_in_pos;
				vf_mm.exp_sc = vf_mm.obs_sc = start; vf_mm.exp_line = vf_mm.obs_line = 0; vf_mm.exp_tl = vf_mm.obs_tl = 0;
				vf_leave(VF_ST_MISMATCH);
			}
			vf_n_overread_checks++;
		}
	}
#endif
#ifdef VF_YYLMAX
	/* %array: yytext holds YYLMAX characters including the terminating NUL; a longer token must end in the
	 * documented fatal error, not be delivered */
	if (leng >= VF_YYLMAX) vf_mismatch("an %array scanner delivered a token of YYLMAX or more characters", act, text, leng, start, lineno);
#endif
	seg = (int)leng - vf_R.more_len;
	vf_cur_more_prefix = vf_R.more_len;
	if (act != vf_R.rule)
		vf_mismatch("rule", act, text, leng, start, lineno);
	if (!vf_ref_split_ok(&vf_R, seg))
		vf_mismatch("yyleng", act, text, leng, start, lineno);
	vf_ref_commit(&vf_R, seg);
	if (memcmp(text, vf_R.text, (size_t)leng) != 0)
		vf_mismatch("yytext", act, text, leng, start, lineno);
	if (start != vf_R.sc)
		vf_mismatch("start condition", act, text, leng, start, lineno);
#ifdef VF_CHECK_LINENO
	if (lineno != VF_EXPECTED_LINE) {
		/* classify one specific history: the excess equals the newlines of the text given back by yyreject() */
		int excess = lineno - VF_EXPECTED_LINE;
		vf_R.lineno = VF_EXPECTED_LINE;
		vf_mismatch(vf_rej_newlines > 0 && excess == vf_rej_newlines ? "yylineno: newlines of rejected text stay counted" : "yylineno",
			act, text, leng, start, lineno);
	}
#endif
	vf_n_tokens++;
	vf_tok_in_exec++;
	if (vf_nrules_in_exec < 4) {
		int i, seen = 0;
		for (i = 0; i < vf_nrules_in_exec; i++) if (vf_rules_in_exec[i] == act) seen = 1;
		if (!seen) vf_rules_in_exec[vf_nrules_in_exec++] = act;
	}
}


/* ---- action operations ---- */
enum { VF_OP_NONE = 0, VF_OP_LESS = 1, VF_OP_UNPUT = 2, VF_OP_INPUT1 = 3, VF_OP_INPUT2 = 4, VF_OP_INPUT3 = 5,
       VF_OP_MORE = 6, VF_OP_REJECT = 7, VF_OP_BEGIN = 8, VF_OP_PUSH = 9, VF_OP_POP = 10, VF_OP_TOP = 11,
       VF_OP_SETBOL = 12, VF_OP_RETURN = 13, VF_OP_SETLINE = 14, VF_NOPS = 16 };
#ifndef VF_OPMASK
#define VF_OPMASK 0
#endif
#ifndef VF_UNPUT_CHARS
#define VF_UNPUT_CHARS "ab\n"
#endif
static long vf_n_ops[VF_NOPS], vf_n_op_effect;

static int vf_op(long leng)
{
	int menu[VF_NOPS], n = 0, i, c;
	menu[n++] = VF_OP_NONE;
	for (i = 1; i < VF_NOPS; i++) {
		if (!((VF_OPMASK >> i) & 1)) continue;
		/* combinations inside one action that the manual leaves undefined are not generated */
		if (vf_act_ops > 0) {
			int isio = (i == VF_OP_UNPUT || i == VF_OP_INPUT1 || i == VF_OP_INPUT2 || i == VF_OP_INPUT3);
			if (i == VF_OP_REJECT || vf_act_did[VF_OP_REJECT]) continue;
			if (i == VF_OP_LESS && vf_act_io) continue;   /* yyless after yyunput/yyinput in one action: not defined by the manual */
			if (i == VF_OP_MORE && vf_act_io) continue;
			if (isio && vf_act_did[VF_OP_MORE]) continue;
			if (i == VF_OP_MORE && vf_act_did[VF_OP_MORE]) continue;
			if (i == VF_OP_LESS && vf_act_did[VF_OP_MORE]) continue;
			if (i == VF_OP_MORE && vf_act_did[VF_OP_LESS]) continue;
		}
		if (i == VF_OP_POP && vf_R.sp == 0) {
#ifndef VF_ALLOW_UNDERFLOW
			continue;
#endif
		}
		menu[n++] = i;
	}
	(void)leng;
	c = vf_choose(n, VF_K_OP);
	vf_n_ops[menu[c]]++;
	vf_act_ops++;
	vf_act_did[menu[c]] = 1;
	if (menu[c] == VF_OP_UNPUT || menu[c] == VF_OP_INPUT1 || menu[c] == VF_OP_INPUT2 || menu[c] == VF_OP_INPUT3) vf_act_io = 1;
	if (menu[c] == VF_OP_INPUT1 || menu[c] == VF_OP_INPUT2 || menu[c] == VF_OP_INPUT3) vf_act_did_input = 1;
	return menu[c];
}

static int vf_arg_less(long leng)
{
	/* k ranges over [prefix, yyleng]; simplest first: give back one character, two, ... */
#ifdef VF_LESS_BELOW_PREFIX
	int lo = 0, n, c;            /* also give back part of the text kept by yymore() */
#else
	int lo = vf_cur_more_prefix, n, c;
#endif
	n = (int)leng - lo + 1;
	if (n < 1) return (int)leng;
	c = vf_choose(n, VF_K_ARG);
	return (int)leng - 1 - c >= lo ? (int)leng - 1 - c : (int)leng;   /* last alternative: yyless(yyleng) */
}

static int vf_arg_unput(void)
{
	static const char chars[] = VF_UNPUT_CHARS;
	int c = vf_choose((int)sizeof chars - 1, VF_K_ARG);
	/* "push-back overflow" is the documented outcome when the buffer cannot hold the
	 * pushed-back text and the current token; only tiny explicit buffers may hit it */
	if (vf_bufsize > 0 && vf_bufsize <= 8) vf_expected_fatal = "push-back overflow";
#ifdef VF_SOURCE_SCAN
	/* yy_scan_string/bytes/buffer buffers are exactly as large as their contents: same capacity limit */
	vf_expected_fatal = "push-back overflow";
#endif
	return (unsigned char)chars[c];
}

static int vf_arg_sc(void)
{
	int n = (int)(sizeof vf_sc_args / sizeof vf_sc_args[0]);
	return vf_sc_args[vf_choose(n, VF_K_ARG)];
}

static void vf_op_mismatch(const char *what, int exp, int obs)
{
	vf_mm.what = what; vf_mm.tokidx = vf_tok_in_exec;
	vf_mm.exp_rule = vf_R.rule; vf_mm.obs_rule = vf_R.rule;
	vf_mm.exp_len = exp; vf_mm.obs_len = obs;
	vf_mm.exp_sc = vf_R.sc; vf_mm.obs_sc = vf_R.sc; vf_mm.exp_line = vf_R.lineno; vf_mm.obs_line = vf_R.lineno;
	vf_mm.exp_tl = vf_mm.obs_tl = 0;
	vf_leave(VF_ST_MISMATCH);
}

static void vf_check_line(int lineno)
{
#ifdef VF_CHECK_LINENO
	if (lineno != VF_EXPECTED_LINE) {
		vf_mm.what = "yylineno after operation"; vf_mm.tokidx = vf_tok_in_exec;
		vf_mm.exp_rule = vf_mm.obs_rule = vf_R.rule; vf_mm.exp_len = vf_mm.obs_len = 0;
		vf_mm.exp_sc = vf_mm.obs_sc = vf_R.sc; vf_mm.exp_line = vf_R.lineno; vf_mm.obs_line = lineno;
		vf_mm.exp_tl = vf_mm.obs_tl = 0;
		vf_leave(VF_ST_MISMATCH);
	}
#else
	(void)lineno;
#endif
}

#ifdef VF_LESS3
/* yyless() from section 3 code */
#if defined(VF_API_NR)
static void vf_less3(int k) { yyless(k); }
#elif defined(VF_API_R)
static void vf_less3(int k, void *yyscanner) { struct yyguts_t *yyg = (struct yyguts_t *)yyscanner; (void)yyg; yyless(k); }
#else
static void vf_less3(int k, void *yyscanner) { yyless(k, (yyscan_t)yyscanner); }
#endif
#endif
static void vf_did_less(int n, const char *text, long leng, int lineno)
{
	vf_ref_less(&vf_R, n);
	if (leng != n) vf_op_mismatch("yyleng after yyless", n, (int)leng);
	if (memcmp(text, vf_R.text, (size_t)n) != 0) vf_op_mismatch("yytext after yyless", n, (int)leng);
	vf_check_line(lineno);
	vf_n_op_effect++;
}

static void vf_did_unput(int c, const char *text, long leng, int lineno)
{
	vf_expected_fatal = 0;
	vf_ref_unput(&vf_R, c);
#ifdef VF_ARRAY
	/* %array: yytext is preserved across yyunput() */
	if (leng != vf_R.text_len || memcmp(text, vf_R.text, (size_t)leng) != 0)
		vf_op_mismatch("yytext after yyunput (%array)", vf_R.text_len, (int)leng);
#else
	(void)text; (void)leng;
#endif
	vf_check_line(lineno);
	vf_n_op_effect++;
}

static void vf_did_input(int c, int lineno)
{
	int e = vf_ref_input(&vf_R);
	if (e < 0) {
		if (c != 0 && c != EOF) vf_op_mismatch("yyinput at end of input", 0, c);
	} else if (c != e) {
		vf_op_mismatch("yyinput return value", e, c);
	}
	vf_check_line(lineno);
	vf_n_op_effect++;
}

static void vf_did_more(void) { vf_ref_more(&vf_R); vf_n_op_effect++; }
static void vf_will_reject(void)
{
	int i;
	for (i = 0; i < vf_R.sv_seg; i++) if (vf_R.buf[vf_R.head - vf_R.sv_seg + i] == '\n') vf_rej_newlines++;
	vf_ref_reject(&vf_R); vf_n_tokens--; vf_n_op_effect++;
}

static void vf_did_begin(int sc, int now)
{
	vf_R.sc = sc;
	if (now != sc) vf_op_mismatch("yystart() after yybegin", sc, now);
	vf_n_op_effect++;
}
static void vf_did_push(int sc, int now)
{
	if (vf_R.sp < 255) vf_R.stack[vf_R.sp++] = vf_R.sc;
	vf_R.sc = sc;
	if (now != sc) vf_op_mismatch("yystart() after yy_push_state", sc, now);
	vf_n_op_effect++;
}
static int vf_expect_underflow;
static void vf_will_pop(void) { vf_expect_underflow = (vf_R.sp == 0); if (vf_expect_underflow) vf_expected_fatal = "underflow"; }
static void vf_did_pop(int now)
{
	if (vf_expect_underflow) vf_op_mismatch("yy_pop_state on an empty stack returned", -1, now);
	vf_R.sc = vf_R.stack[--vf_R.sp];
	if (now != vf_R.sc) vf_op_mismatch("yystart() after yy_pop_state", vf_R.sc, now);
	vf_n_op_effect++;
}
static void vf_did_top(int top)
{
	int exp = vf_R.sp > 0 ? vf_R.stack[vf_R.sp - 1] : vf_R.sc;   /* manual: the current state if the stack is empty */
	if (top != exp) vf_op_mismatch("yy_top_state()", exp, top);
	vf_n_op_effect++;
}
static void vf_did_setbol(int v, int now)
{
	vf_R.bol = v;
	if (!!now != !!v) vf_op_mismatch("yyatbol() after yysetbol", v, now);
}
static void vf_did_return(void) { }
static void vf_body(void) { vf_pre_pending = 0; }
static int vf_arg_line(void)
{
	static const int vals[] = { 1, 7, 1000 };
	return vals[vf_choose(3, VF_K_ARG)];
}
static void vf_did_setline(int v, int now)
{
	vf_R.lineno = v; vf_frozen_line = v;
	if (now != v) vf_op_mismatch("yylineno read back after being set", v, now);
	vf_n_op_effect++;
}

#ifdef VF_LEDGER
#include "ledger.h"
#endif

/* ---- API flavour glue ---- */
#if defined(VF_API_NR)
#define VF_LEX() yylex()
#define VF_S0
#define VF_S1
static void vf_fresh(void)
{
	yylex_destroy();
#ifdef VF_LINENO_FROZEN
	yylineno = 1;    /* without %option yylineno the scanner never touches it, not even in yylex_destroy() */
#endif
}
static void vf_finish(void) { yylex_destroy(); }
#elif defined(VF_API_R) || defined(VF_API_C99)
static yyscan_t vf_scanner;
#define VF_LEX() yylex(vf_scanner)
#define VF_S0 vf_scanner
#define VF_S1 , vf_scanner
static int vf_init_failed;          /* yylex_init returned non-zero (with errno) */
#ifdef YY_EXTRA_TYPE
#define VF_EXTRA_T YY_EXTRA_TYPE
#else
#define VF_EXTRA_T void *
#endif
static void vf_fresh(void)
{
	if (vf_scanner) { yylex_destroy(vf_scanner); vf_scanner = 0; }
	vf_init_failed = 0;
	errno = 0;
#ifdef VF_INIT_EXTRA
	/* the other documented way to make a scanner: same failure contract (non-zero, errno), and the value must arrive in yyextra */
	if (yylex_init_extra((VF_EXTRA_T)&vf_init_failed, &vf_scanner) != 0) {
#else
	if (yylex_init(&vf_scanner) != 0) {
#endif
#ifdef VF_FAULTS
		vf_init_failed = errno ? errno : -1;
		vf_scanner = 0;
		if (vf_in_yylex) longjmp(vf_jmp, VF_ST_INITFAIL + 1);
#endif
		vf_hard_error("yylex_init failed");
	}
#ifdef VF_INIT_EXTRA
	if (yyget_extra(vf_scanner) != (VF_EXTRA_T)&vf_init_failed) vf_hard_error("yylex_init_extra did not store the user value in yyextra");
#endif
}
static void vf_finish(void) { if (vf_scanner) { yylex_destroy(vf_scanner); vf_scanner = 0; } }
#elif defined(VF_API_CXX)
/* C++ class: input, output and errors go through the documented virtual members */
class VfLexer : public yyFlexLexer {
public:
	/* user-provided, so that 'new VfLexer()' does not zero the storage first (value-initialisation of a class without one does) */
	VfLexer() : yyFlexLexer() { }
	virtual int LexerInput(char *b, int m) { return vf_read(b, (size_t)m); }
	virtual void LexerOutput(const char *, int) { }
	virtual void LexerError(const char *m) { vf_fatal(m); }
	/* the storage of a lexer object is whatever the heap or the stack held before: every execution gets it filled with another
	 * byte, so a member the constructor forgets (round-7 seed C13-r7m3) shows up as behaviour that differs from the reference */
	static void *operator new(size_t n)
	{
		static const unsigned char fill[] = {0xA5, 0xFF, 0x01, 0x00, 0x7F, 0x80};
		static unsigned k;
		void *p = malloc(n);
		if (!p) vf_hard_error("malloc failed in the driver");
		memset(p, fill[k++ % sizeof fill], n);
		return p;
	}
	static void operator delete(void *p) { free(p); }
};
static VfLexer *vf_lexer;
#define VF_LEX() vf_lexer->yylex()
#define VF_S0
#define VF_S1
static void vf_fresh(void) { delete vf_lexer; vf_lexer = new VfLexer(); }
static void vf_finish(void) { delete vf_lexer; vf_lexer = 0; }
#endif

/* start condition chosen and stack filled through the API before the first yylex() call */
#if defined(VF_BEGIN_OUTSIDE) || defined(VF_PRELOADS)
static void vf_begin_outside(int sc)
{
#if defined(VF_API_NR)
	yybegin(sc);
#elif defined(VF_API_R)
	struct yyguts_t *yyg = (struct yyguts_t *)vf_scanner;
	yybegin(sc);
#else
	yybegin(sc, vf_scanner);
#endif
}
#endif
#ifdef VF_PRELOADS
static const int vf_preloads[] = { VF_PRELOADS };
static int vf_preload;
static void vf_do_preload(void)
{
	int i;
	for (i = 0; i < vf_preload; i++) {
		int sc = vf_sc_args[i % (int)(sizeof vf_sc_args / sizeof vf_sc_args[0])];
		yy_push_state(sc VF_S1);
		if (vf_R.sp < 255) vf_R.stack[vf_R.sp++] = vf_R.sc;
		vf_R.sc = sc;
	}
}
#endif

/* serialized tables (%option tables-file): loaded once, before the first scan */
#ifdef VF_TABLES_FILE
static int vf_tables_loaded;
static void vf_load_tables(void)
{
	FILE *fp;
	if (vf_tables_loaded) return;
	fp = fopen(VF_TABLES_FILE, "rb");
	if (!fp) vf_hard_error("cannot open the tables file flex was asked to write");
	if (yytables_fload(fp VF_S1) != 0) vf_hard_error("yytables_fload failed on the file flex wrote");
	fclose(fp);
	vf_tables_loaded = 1;
}
#endif

/* vf_cur_sc (declared in section 1) is read by %option user-init: yybegin(vf_cur_sc) */
static long vf_n_expected_fatal;

static void vf_report(int st)
{
	int i;
#ifdef VF_FAULTS
	if (vf_alloc_fail_at || vf_fault_kind) return;     /* outcomes of runs with an injected fault are judged by vf_fault_enumerate */
#endif
	if (st == VF_ST_FATAL && vf_expected_fatal && strstr(vf_fatal_msg, vf_expected_fatal)) {
		vf_n_expected_fatal++;
		return;
	}
	if (st == VF_ST_MISMATCH) vf_n_mismatch++;
	else if (st == VF_ST_FATAL) vf_n_fatal++;
	else if (st == VF_ST_HORIZON) { vf_n_horizon++; return; }
	if (vf_reported_in_group >= VF_MAX_REPORT_PER_GROUP) return;
	vf_reported_in_group++;
	fprintf(vf_out, "{\"viol\":\"%s\",\"group\":%d,\"sc\":%d,\"bufsize\":%d,\"input\":", st == VF_ST_FATAL ? "fatal" : "mismatch",
		vf_g->id, vf_g->sc, vf_bufsize);
	vf_hex(vf_out, vf_in, vf_in_len);
	fprintf(vf_out, ",\"choices\":[");
	for (i = 0; i < vf_tr_len; i++) fprintf(vf_out, "%s%d", i ? "," : "", vf_tr_choice[i]);
	fprintf(vf_out, "],\"kinds\":[");
	for (i = 0; i < vf_tr_len; i++) fprintf(vf_out, "%s%d", i ? "," : "", vf_tr_kind[i]);
	fprintf(vf_out, "]");
	if (st == VF_ST_FATAL) {
		fprintf(vf_out, ",\"msg\":\"%s\",\"tok\":%d}\n", vf_fatal_msg, vf_tok_in_exec);
	} else {
		fprintf(vf_out, ",\"what\":\"%s\",\"tok\":%d,\"exp_rule\":%d,\"exp_len\":%d,\"obs_rule\":%d,\"obs_len\":%d,"
			"\"exp_sc\":%d,\"obs_sc\":%d,\"exp_line\":%d,\"obs_line\":%d,\"exp_text\":",
			vf_mm.what, vf_mm.tokidx, vf_mm.exp_rule, vf_mm.exp_len, vf_mm.obs_rule, vf_mm.obs_len,
			vf_mm.exp_sc, vf_mm.obs_sc, vf_mm.exp_line, vf_mm.obs_line);
		vf_hex(vf_out, vf_mm.exp_text, vf_mm.exp_tl);
		fprintf(vf_out, ",\"obs_text\":");
		vf_hex(vf_out, vf_mm.obs_text, vf_mm.obs_tl);
		fprintf(vf_out, "}\n");
	}
}

static void vf_run_one(void)
{
	int st, r;
	vf_in_pos = 0; vf_steps = 0; vf_tok_in_exec = 0; vf_nrules_in_exec = 0; vf_need_max = 0; vf_frozen_line = 1; vf_rej_newlines = 0; vf_prev_act = -1; vf_prev_text = 0; vf_pre_pending = 0; vf_exec_reads = 0; vf_fault_left = 0; vf_err_flag = 0;
	vf_cur_sc = vf_g->sc; vf_cur_more_prefix = 0; vf_expected_fatal = 0; vf_expect_underflow = 0;
	vf_ref_init(&vf_R, vf_in, vf_in_len, vf_g->sc);
#ifdef VF_EXPECT_FATAL
	vf_expected_fatal = VF_EXPECT_FATAL;   /* this harness runs inputs whose documented outcome is this fatal error */
#endif
	st = setjmp(vf_jmp);
	if (st == 0) {
		vf_in_yylex = 1;
		vf_fresh();
#ifdef VF_TABLES_FILE
		vf_load_tables();
#endif
#ifdef VF_SOURCE_SCAN
		/* in-memory sources: 1 yy_scan_bytes, 2 yy_scan_string (inputs without NUL), 3 yy_scan_buffer (user-owned, two NULs appended) */
		if (VF_SOURCE_SCAN == 1) {
			yy_scan_bytes((const char *)vf_in, vf_in_len VF_S1);
		} else if (VF_SOURCE_SCAN == 2) {
			static char tmp[64];
			memcpy(tmp, vf_in, (size_t)vf_in_len); tmp[vf_in_len] = 0;
			yy_scan_string(tmp VF_S1);
		} else {
			static char tmp2[64];
			memcpy(tmp2, vf_in, (size_t)vf_in_len); tmp2[vf_in_len] = 0; tmp2[vf_in_len + 1] = 0;
			if (!yy_scan_buffer(tmp2, (size_t)vf_in_len + 2 VF_S1)) vf_hard_error("yy_scan_buffer refused a well-formed buffer");
		}
		vf_in_pos = vf_in_len;
#else
#ifdef VF_API_CXX
		if (vf_bufsize > 0)
			vf_lexer->yy_switch_to_buffer(vf_lexer->yy_create_buffer(&std::cin, vf_bufsize));
#else
		if (vf_bufsize > 0)
			yy_switch_to_buffer(yy_create_buffer(stdin, vf_bufsize VF_S1) VF_S1);  /* a NULL file would mark the buffer as not refillable */
#endif
#endif
#ifdef VF_BEGIN_OUTSIDE
		/* VF_BEGIN_OUTSIDE=2: no yybegin() at all before the first yylex() - the scanner is still in its never-started state when
		 * the API is used (only for rule sets that live in INITIAL) */
		if (VF_BEGIN_OUTSIDE != 2) vf_begin_outside(vf_g->sc);
		else if (vf_g->sc != 0) vf_hard_error("VF_BEGIN_OUTSIDE=2 is for groups that start in INITIAL");
#endif
#ifdef VF_PRELOADS
		vf_do_preload();
#endif
		do { vf_lex_calls++; r = VF_LEX(); } while (r != 0);
		vf_in_yylex = 0;
		if (vf_R.head < vf_R.tail) {
			vf_ref_match(&vf_R);
			vf_mm.what = "yylex returned 0 with input left"; vf_mm.tokidx = vf_tok_in_exec;
			vf_mm.exp_rule = vf_R.rule; vf_mm.exp_len = vf_R.total; vf_mm.obs_rule = 0; vf_mm.obs_len = 0;
			vf_mm.exp_tl = vf_mm.obs_tl = 0;
			vf_report(VF_ST_MISMATCH);
		}
	} else {
		vf_in_yylex = 0;
		vf_report(st - 1);
	}
	if (vf_tok_in_exec >= 2 && vf_nrules_in_exec >= 2) vf_n_nontrivial++;
	vf_last_status = st ? st - 1 : VF_ST_DONE;
	vf_last_reads = vf_exec_reads;
#ifdef VF_LEDGER
	vf_last_allocs = vf_alloc_count;
	if (vf_last_status == VF_ST_DONE) {
		/* the user has no buffers of their own here: after yylex_destroy everything must have been handed back */
		vf_ledger_msg[0] = 0;
		vf_finish();
		vf_ledger_check_empty();
		if (vf_ledger_msg[0]) {
			vf_n_mismatch++;
			if (vf_reported_in_group < VF_MAX_REPORT_PER_GROUP) {
				int i;
				vf_reported_in_group++;
				fprintf(vf_out, "{\"viol\":\"ledger\",\"group\":%d,\"sc\":%d,\"bufsize\":%d,\"input\":", vf_g->id, vf_g->sc, vf_bufsize);
				vf_hex(vf_out, vf_in, vf_in_len);
				fprintf(vf_out, ",\"choices\":[");
				for (i = 0; i < vf_tr_len; i++) fprintf(vf_out, "%s%d", i ? "," : "", vf_tr_choice[i]);
				fprintf(vf_out, "],\"what\":\"%s\"}\n", vf_ledger_msg);
			}
		}
	} else {
		/* abandoned by the fatal-error hook or a mismatch: whatever the scanner still holds is released, nothing is judged */
		vf_finish();
		vf_ledger_abandon();
		vf_ledger_msg[0] = 0;
	}
	vf_ledger_reset_counts();
#endif
}

static const int vf_bufsizes[] = { VF_BUFSIZES };

#ifdef VF_FAULTS
/* C14: for this scenario (input x buffer size) fail every allocation request in turn, and inject every kind of read
 * fault at every read request; the outcome of each run must be the documented one. */
static long vf_n_fault_runs, vf_n_fault_ok, vf_n_alloc_faults, vf_n_read_faults;
static int vf_fault_reported[6];
static void vf_fault_report(const char *fault, long index, const char *expected)
{
	static const char *names[] = { "completed normally", "fatal-error hook", "step horizon", "mismatch with the reference", "yylex_init error return" };
	vf_n_mismatch++;
	{
		/* one report per fault kind and scenario, so that a frequent (possibly known) kind cannot crowd out another */
		int slot = !strcmp(fault, "allocation failure") ? 0 : !strcmp(fault, "EINTR") ? 1 : !strcmp(fault, "EINTR twice") ? 2 :
			   !strcmp(fault, "read error") ? 3 : !strcmp(fault, "no fault") ? 5 : 4;
		if (vf_fault_reported[slot]) return;
		vf_fault_reported[slot] = 1;
	}
	fprintf(vf_out, "{\"viol\":\"fault\",\"group\":%d,\"sc\":%d,\"bufsize\":%d,\"input\":", vf_g->id, vf_g->sc, vf_bufsize);
	vf_hex(vf_out, vf_in, vf_in_len);
	fprintf(vf_out, ",\"choices\":[],\"fault\":\"%s\",\"index\":%ld,\"what\":\"%s #%ld: expected %s, outcome: %s%s%s\",\"tok\":%d}\n",
		fault, index, fault, index, expected, names[vf_last_status],
		vf_last_status == VF_ST_FATAL ? " - " : "", vf_last_status == VF_ST_FATAL ? vf_fatal_msg : "", vf_tok_in_exec);
}
static void vf_fault_enumerate(void)
{
	long N, Rn, k;
	int kind;
	static const char *kn[] = { "", "EINTR", "EINTR twice", "read error", "EINTR after a partial read", "read error after a partial read" };
	vf_explore_off = 1;
	memset(vf_fault_reported, 0, sizeof vf_fault_reported);
	vf_alloc_fail_at = 0; vf_fault_kind = 0;
	vf_executions++; vf_run_one();
	if (vf_last_status != VF_ST_DONE) { vf_fault_report("no fault", 0, "normal completion"); return; }
	N = vf_last_allocs; Rn = vf_last_reads;
	for (k = 1; k <= N; k++) {
		vf_alloc_fail_at = k;
		vf_executions++; vf_n_fault_runs++; vf_n_alloc_faults++;
		vf_run_one();
		if (vf_last_status == VF_ST_FATAL && vf_fatal_msg[0]) vf_n_fault_ok++;        /* stopped through the fatal-error hook with a message */
#if defined(VF_API_R) || defined(VF_API_C99)
		else if (vf_last_status == VF_ST_INITFAIL && (vf_init_failed == ENOMEM || vf_init_failed == EINVAL)) vf_n_fault_ok++;
#endif
		else vf_fault_report("allocation failure", k, "an error return or the fatal-error hook with a message");
	}
	vf_alloc_fail_at = 0;
#ifdef VF_DEFAULT_INPUT
	for (k = 1; k <= Rn; k++) {
		for (kind = VF_F_EINTR1; kind < VF_F_NKINDS; kind++) {
			if ((kind == VF_F_PARTIAL || kind == VF_F_PARTHARD) && VF_DEFAULT_INPUT != 1) continue;
			vf_fault_read = k; vf_fault_kind = kind;
			vf_executions++; vf_n_fault_runs++; vf_n_read_faults++;
			vf_run_one();
			if (kind == VF_F_HARD || kind == VF_F_PARTHARD) {
				if (vf_last_status == VF_ST_FATAL && strstr(vf_fatal_msg, "input in flex scanner failed")) vf_n_fault_ok++;
				else vf_fault_report(kn[kind], k, "the fatal-error hook with 'input in flex scanner failed'");
			} else {
				if (vf_last_status == VF_ST_DONE) vf_n_fault_ok++;
				else vf_fault_report(kn[kind], k, "the read to be retried and the token stream unchanged");
			}
		}
	}
	vf_fault_kind = 0;
#endif
	(void)Rn;
}
#endif

static void vf_explore_input(void)
{
	int i;
	vf_n_inputs++;
	for (i = 0; i < (int)(sizeof vf_bufsizes / sizeof vf_bufsizes[0]); i++) {
		vf_bufsize = vf_bufsizes[i];
#if defined(VF_FAULTS)
		vf_fault_enumerate();
#elif defined(VF_PRELOADS)
		{
			int j;
			for (j = 0; j < (int)(sizeof vf_preloads / sizeof vf_preloads[0]); j++) {
				vf_preload = vf_preloads[j];
				vf_explore(vf_run_one);
			}
		}
#else
		vf_explore(vf_run_one);
#endif
	}
}

static void vf_enum_inputs(void)
{
	unsigned char buf[16];
	int idx[16], len, i, k;
	const unsigned char *p;
	/* all strings of length 0..maxlen over the group's alphabet */
	for (len = 0; len <= vf_g->maxlen; len++) {
		for (i = 0; i < len; i++) idx[i] = 0;
		for (;;) {
			for (i = 0; i < len; i++) buf[i] = vf_g->alpha[idx[i]];
			vf_in = buf; vf_in_len = len;
			vf_explore_input();
			for (i = len - 1; i >= 0; i--) {
				if (++idx[i] < vf_g->nalpha) break;
				idx[i] = 0;
			}
			if (i < 0) break;
		}
	}
	/* explicit extra strings (transition cover etc.) */
	p = vf_g->extra;
	for (k = 0; k < vf_g->nextra; k++) {
		int l = p[0] | (p[1] << 8);
		vf_in = p + 2; vf_in_len = l;
		vf_explore_input();
		p += 2 + l;
	}
}

/* Watchdog: an execution normally takes microseconds.  If the same execution is still running
 * two timer ticks later the scanner is looping without reaching any hook (the step horizon only
 * sees loops that pass through an action or a read); report it as a hang and stop. */
#include <signal.h>
#include <unistd.h>
#include <sys/time.h>
/* the watchdog counts the CPU time of this process, not wall-clock time: a scanner that loops burns CPU and is caught, a
 * process that is merely not scheduled (a loaded machine) is not mistaken for one */
static void vf_arm_watchdog(unsigned secs)
{
	struct itimerval it;
	it.it_interval.tv_sec = 0; it.it_interval.tv_usec = 0;
	it.it_value.tv_sec = (long)secs; it.it_value.tv_usec = 0;
	setitimer(ITIMER_PROF, &it, (struct itimerval *)0);
}
static volatile long vf_wd_last = -1; static volatile int vf_wd_same;
static int vf_wd_secs = 2;
static void vf_watchdog(int sig)
{
	(void)sig;
	if (vf_in_yylex && vf_wd_last == vf_executions) {
		if (++vf_wd_same >= 2) {
			int i;
			fprintf(vf_out, "{\"viol\":\"hang\",\"group\":%d,\"sc\":%d,\"bufsize\":%d,\"input\":", vf_g ? vf_g->id : -1,
				vf_g ? vf_g->sc : -1, vf_bufsize);
			vf_hex(vf_out, vf_in, vf_in_len);
			fprintf(vf_out, ",\"choices\":[");
			for (i = 0; i < vf_tr_len; i++) fprintf(vf_out, "%s%d", i ? "," : "", vf_tr_choice[i]);
			fprintf(vf_out, "],\"what\":\"no hook reached for %d s: the scanner loops inside yylex\",\"tok\":%d}\n", 2 * vf_wd_secs, vf_tok_in_exec);
			fprintf(vf_out, "{\"summary\":1,\"aborted\":\"hang\",\"executions\":%ld,\"tokens\":%ld,\"mismatches\":%ld,\"fatals\":%ld,"
				"\"inputs\":%ld,\"nontrivial\":%ld,\"horizons\":%ld,\"ref_states\":%ld,\"ref_edges\":%ld,\"ref_edges_walked\":%ld,"
				"\"choice_points\":%ld,\"overflow\":%d,\"expected_fatals\":%ld,\"op_effects\":%ld,\"reads\":%ld,\"eof_actions\":%ld,\"bound\":-1,"
				"\"ops\":[0,0,0,0,0,0,0,0,0,0,0,0,0,0]}\n", vf_executions, vf_n_tokens, vf_n_mismatch + 1, vf_n_fatal, vf_n_inputs,
				vf_n_nontrivial, vf_n_horizon, vf_states_total, vf_edges_live, vf_edges_seen_n, vf_choice_points, vf_overflow,
				vf_n_expected_fatal, vf_n_op_effect, vf_n_reads, vf_n_eof);
			fflush(vf_out);
			_exit(0);
		}
	} else {
		vf_wd_same = 0;
		vf_wd_last = vf_executions;
	}
	vf_arm_watchdog((unsigned)vf_wd_secs);
}

int main(int argc, char **argv)
{
	int gi, ng = (int)(sizeof vf_groups / sizeof vf_groups[0]), i, only = -1, bound, vf_bound_done;
	int ndfa = (int)(sizeof vf_dfas / sizeof vf_dfas[0]);
	vf_out = stdout;
	for (i = 1; i < argc; i++) {
		if (!strcmp(argv[i], "-o") && i + 1 < argc) vf_out = fopen(argv[++i], "w");
		else if (!strcmp(argv[i], "-g") && i + 1 < argc) only = atoi(argv[++i]);
		else if (!strcmp(argv[i], "-H") && i + 1 < argc) vf_horizon = atol(argv[++i]);
		else if (!strcmp(argv[i], "-T") && i + 1 < argc) vf_deadline = time((time_t *)0) + atol(argv[++i]);
		else if (!strcmp(argv[i], "-W") && i + 1 < argc) vf_wd_secs = atoi(argv[++i]);
	}
	if (!vf_out) return 5;
	signal(SIGPROF, vf_watchdog);
	vf_arm_watchdog((unsigned)vf_wd_secs);
	vf_dfa_edge_base = (int *)calloc((size_t)ndfa + 1, sizeof(int));
	for (i = 0; i < ndfa; i++) {
		vf_dfa_edge_base[i] = (int)vf_edges_total;
		vf_edges_total += (long)vf_dfas[i].nst * VF_NCLS;
		vf_states_total += vf_dfas[i].nst;
		{ long e; for (e = 0; e < (long)vf_dfas[i].nst * VF_NCLS; e++) if (vf_dfas[i].tr[e] >= 0) vf_edges_live++; }
	}
	vf_edge_seen = (unsigned char *)calloc((size_t)vf_edges_total + 1, 1);
	for (i = 0; i < VF_NKINDS; i++) vf_budget[i] = VF_BUDGET_DEFAULT;
#ifdef VF_BUDGET_READ
	vf_budget[VF_K_READ] = VF_BUDGET_READ;
#endif
#ifdef VF_BUDGET_OP
	vf_budget[VF_K_OP] = VF_BUDGET_OP;
#endif
	vf_budget[VF_K_ARG] = 1000; vf_kind_free[VF_K_ARG] = 1;   /* arguments are enumerated exhaustively */
#ifdef VF_FREE_READ
	vf_kind_free[VF_K_READ] = 1;
#endif
#ifdef VF_FREE_OP
	vf_kind_free[VF_K_OP] = 1;
#endif
	/* iterate the deviation bound: everything with 0 deviations, then <= 1, ... so that the first
	 * counterexample reported has the fewest deviations; counters are those of the last pass */
	for (bound = (VF_BUDGET_TOTAL > 0 ? 0 : VF_BUDGET_TOTAL); bound <= VF_BUDGET_TOTAL; bound++) {
		vf_budget_total = bound;
		vf_n_tokens = vf_n_mismatch = vf_n_fatal = vf_n_horizon = vf_n_nontrivial = vf_n_inputs = 0;
		vf_n_reads = vf_n_eof = vf_executions = vf_choice_points = vf_n_expected_fatal = vf_n_op_effect = 0;
		memset(vf_n_ops, 0, sizeof vf_n_ops);
		for (gi = 0; gi < ng; gi++) {
			if (only >= 0 && vf_groups[gi].id != only) continue;
			vf_g = &vf_groups[gi];
			vf_reported_in_group = 0;
			vf_enum_inputs();
		}
		if (vf_n_mismatch + vf_n_fatal > 0 || vf_timed_out) break;
	}
	vf_bound_done = bound > VF_BUDGET_TOTAL ? VF_BUDGET_TOTAL : bound;
	vf_finish();
	fprintf(vf_out, "{\"summary\":1,\"timed_out\":%d,\"groups\":%d,\"inputs\":%ld,\"executions\":%ld,\"tokens\":%ld,\"mismatches\":%ld,"
		"\"fatals\":%ld,\"horizons\":%ld,\"nontrivial\":%ld,\"reads\":%ld,\"eof_actions\":%ld,"
		"\"ref_states\":%ld,\"ref_edges\":%ld,\"ref_edges_walked\":%ld,\"choice_points\":%ld,\"overflow\":%d,"
		"\"bound\":%d,\"dup_preaction\":%ld,\"overread_checks\":%ld,\"expected_fatals\":%ld,\"op_effects\":%ld,\"ops\":[",
		vf_timed_out, ng, vf_n_inputs, vf_executions, vf_n_tokens, vf_n_mismatch, vf_n_fatal, vf_n_horizon, vf_n_nontrivial,
		vf_n_reads, vf_n_eof, vf_states_total, vf_edges_live, vf_edges_seen_n, vf_choice_points, vf_overflow,
		vf_bound_done, vf_n_dup_preaction, vf_n_overread_checks, vf_n_expected_fatal, vf_n_op_effect);
	for (i = 0; i < VF_NOPS; i++) fprintf(vf_out, "%s%ld", i ? "," : "", vf_n_ops[i]);
	fprintf(vf_out, "]");
#ifdef VF_LEDGER
	fprintf(vf_out, ",\"ledger_checks\":%ld,\"ledger_allocs\":%ld,\"ledger_errors\":%ld,\"ledger_leaks\":%ld", vf_ledger_checks, vf_ledger_allocs_total,
		vf_ledger_errors, vf_ledger_leaks);
#endif
#ifdef VF_FAULTS
	fprintf(vf_out, ",\"fault_runs\":%ld,\"fault_ok\":%ld,\"alloc_faults\":%ld,\"read_faults\":%ld", vf_n_fault_runs, vf_n_fault_ok, vf_n_alloc_faults, vf_n_read_faults);
#endif
	fprintf(vf_out, "}\n");
	fclose(vf_out);
	return 0;
}
#endif
