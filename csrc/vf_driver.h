/* vf_driver.h - section 3 of a generated harness scanner.
 *
 * Included after the scanner body, so yylex(), the tables and every static
 * are in scope.  Before it the .l file includes refscan.h and the generated
 * vf_tables.h (reference DFAs, groups, per-harness knobs).
 *
 * For every group (an independent rule set living in its own start
 * conditions) and every input of the group's bounded-exhaustive input set,
 * the real scanner and the reference model run in lock step: at every action
 * the rule number, yyleng, the bytes of yytext, the start condition and
 * (optionally) yylineno are compared.
 */
#ifndef VF_DRIVER_H
#define VF_DRIVER_H
#include "explorer.h"

enum { VF_ST_DONE = 0, VF_ST_FATAL = 1, VF_ST_HORIZON = 2, VF_ST_MISMATCH = 3 };

static jmp_buf vf_jmp;
static int vf_in_yylex;
static const unsigned char *vf_in;
static int vf_in_len, vf_in_pos;
static vf_ref vf_R;
static const vf_group *vf_g;
static long vf_steps, vf_horizon = 4000;
static char vf_fatal_msg[256];
static FILE *vf_out;

/* counters */
static long vf_n_tokens, vf_n_mismatch, vf_n_fatal, vf_n_horizon, vf_n_nontrivial, vf_n_inputs;
static long vf_n_reads, vf_n_eof;
static int vf_tok_in_exec, vf_rules_in_exec[4], vf_nrules_in_exec;
static int vf_reported_in_group;
#ifndef VF_MAX_REPORT_PER_GROUP
#define VF_MAX_REPORT_PER_GROUP 2
#endif

/* mismatch details */
static struct {
	const char *what; int tokidx;
	int exp_rule, exp_len, obs_rule, obs_len, exp_sc, obs_sc, exp_line, obs_line;
	unsigned char exp_text[64], obs_text[64]; int exp_tl, obs_tl;
} vf_mm;

/* edge coverage of the reference automata: (dfa, state, class) */
static unsigned char *vf_edge_seen; static long vf_edges_total, vf_edges_live, vf_edges_seen_n, vf_states_total;
static int *vf_dfa_edge_base;

static void vf_hard_error(const char *why)
{
	fprintf(vf_out ? vf_out : stdout, "{\"hard_error\":\"%s\"}\n", why);
	fflush(vf_out ? vf_out : stdout);
	exit(4);
}

static void vf_hex(FILE *f, const unsigned char *s, int n)
{
	int i;
	fputc('"', f);
	for (i = 0; i < n; i++) fprintf(f, "%02x", s[i]);
	fputc('"', f);
}

static void vf_leave(int st)
{
	if (vf_in_yylex)
		longjmp(vf_jmp, st + 1);
	vf_hard_error("vf_leave outside yylex");
}

static void vf_fatal(const char *msg)
{
	strncpy(vf_fatal_msg, msg ? msg : "", sizeof vf_fatal_msg - 1);
	vf_leave(VF_ST_FATAL);
	abort();
}

static void vf_step(void)
{
	if (++vf_steps > vf_horizon)
		vf_leave(VF_ST_HORIZON);
}

static int vf_read(char *buf, size_t max_size)
{
	int avail = vf_in_len - vf_in_pos, n;
	vf_step();
	vf_n_reads++;
	n = avail;
	if ((size_t)n > max_size) n = (int)max_size;
#ifdef VF_READ_CHOICES
	if (n > 1) {
		int lim = n > VF_READ_CHOICES ? VF_READ_CHOICES : n;
		n -= vf_choose(lim, VF_K_READ);  /* 0: all that was asked for; k: k bytes fewer */
	}
#endif
#ifdef VF_READ_ONE
	if (n > VF_READ_ONE) n = VF_READ_ONE;
#endif
	if (n > 0) memcpy(buf, vf_in + vf_in_pos, (size_t)n);
	vf_in_pos += n;
	return n;
}

static void vf_mismatch(const char *what, int obs_rule, const char *text, long leng, int start, int lineno)
{
	vf_mm.what = what; vf_mm.tokidx = vf_tok_in_exec;
	vf_mm.exp_rule = vf_R.rule; vf_mm.exp_len = vf_R.nsplit ? vf_R.split[vf_R.nsplit - 1] : -1;
	vf_mm.obs_rule = obs_rule; vf_mm.obs_len = (int)leng;
	vf_mm.exp_sc = vf_R.sc; vf_mm.obs_sc = start;
	vf_mm.exp_line = vf_R.lineno; vf_mm.obs_line = lineno;
	vf_mm.exp_tl = vf_R.text_len > 64 ? 64 : vf_R.text_len;
	memcpy(vf_mm.exp_text, vf_R.text, (size_t)vf_mm.exp_tl);
	vf_mm.obs_tl = leng > 64 ? 64 : (leng < 0 ? 0 : (int)leng);
	if (text) memcpy(vf_mm.obs_text, text, (size_t)vf_mm.obs_tl);
	vf_leave(VF_ST_MISMATCH);
}

static void vf_mark_edges(void)
{
	/* mark the reference edges the selected token walked over */
	int di = vf_start[vf_R.sc][vf_R.bol ? 1 : 0];
	const vf_dfa *d = &vf_dfas[di];
	const unsigned char *s = vf_R.buf + vf_R.head;
	int avail = vf_R.tail - vf_R.head, q = 0, i;
	for (i = 0; i < avail; i++) {
		int c = vf_cls[s[i]];
		long e = vf_dfa_edge_base[di] + (long)q * VF_NCLS + c;
		q = d->tr[q * VF_NCLS + c];
		if (q < 0) break;       /* only live edges are counted; jams are the default-rule path */
		if (!vf_edge_seen[e]) { vf_edge_seen[e] = 1; vf_edges_seen_n++; }
	}
}

#ifdef VF_WITH_OPS
static void vf_ops_after_match(int act);
#endif

static void vf_act(int act, const char *text, long leng, int start, int lineno, int atbol)
{
	int seg;
	vf_step();
	(void)atbol;
	if (act > (int)YY_END_OF_BUFFER) {            /* an <<EOF>> action */
		vf_n_eof++;
		if (vf_R.head < vf_R.tail) {
			vf_ref_match(&vf_R);
			vf_mismatch("EOF action with input left", act, text, 0, start, lineno);
		}
		if (start != vf_R.sc)
			vf_mismatch("start condition at EOF", act, text, 0, start, lineno);
		return;
	}
	if (!vf_ref_match(&vf_R)) {
		vf_R.rule = 0; vf_R.nsplit = 0;
		vf_mismatch("token after end of input", act, text, leng, start, lineno);
	}
#ifndef VF_NO_EDGE_COVER
	vf_mark_edges();
#endif
	seg = (int)leng - vf_R.more_len;
	if (act != vf_R.rule)
		vf_mismatch("rule", act, text, leng, start, lineno);
	if (!vf_ref_split_ok(&vf_R, seg))
		vf_mismatch("yyleng", act, text, leng, start, lineno);
	vf_ref_commit(&vf_R, seg);
	if (memcmp(text, vf_R.text, (size_t)leng) != 0)
		vf_mismatch("yytext", act, text, leng, start, lineno);
	if (start != vf_R.sc)
		vf_mismatch("start condition", act, text, leng, start, lineno);
#ifdef VF_CHECK_LINENO
	if (lineno != vf_R.lineno)
		vf_mismatch("yylineno", act, text, leng, start, lineno);
#endif
	vf_n_tokens++;
	vf_tok_in_exec++;
	if (vf_nrules_in_exec < 4) {
		int i, seen = 0;
		for (i = 0; i < vf_nrules_in_exec; i++) if (vf_rules_in_exec[i] == act) seen = 1;
		if (!seen) vf_rules_in_exec[vf_nrules_in_exec++] = act;
	}
}

/* ---- API flavour glue ---- */
#if defined(VF_API_NR)
#define VF_LEX() yylex()
static void vf_fresh(void) { yylex_destroy(); }
static void vf_finish(void) { yylex_destroy(); }
#elif defined(VF_API_R) || defined(VF_API_C99)
static yyscan_t vf_scanner;
#define VF_LEX() yylex(vf_scanner)
static void vf_fresh(void)
{
	if (vf_scanner) { yylex_destroy(vf_scanner); vf_scanner = 0; }
	if (yylex_init(&vf_scanner) != 0) vf_hard_error("yylex_init failed");
}
static void vf_finish(void) { if (vf_scanner) { yylex_destroy(vf_scanner); vf_scanner = 0; } }
#endif

/* vf_cur_sc (declared in section 1) is read by %option user-init: yybegin(vf_cur_sc) */

static void vf_report(int st)
{
	int i;
	if (st == VF_ST_MISMATCH) vf_n_mismatch++;
	else if (st == VF_ST_FATAL) vf_n_fatal++;
	else if (st == VF_ST_HORIZON) { vf_n_horizon++; return; }
	if (vf_reported_in_group >= VF_MAX_REPORT_PER_GROUP) return;
	vf_reported_in_group++;
	fprintf(vf_out, "{\"viol\":\"%s\",\"group\":%d,\"sc\":%d,\"input\":", st == VF_ST_FATAL ? "fatal" : "mismatch", vf_g->id, vf_g->sc);
	vf_hex(vf_out, vf_in, vf_in_len);
	fprintf(vf_out, ",\"choices\":[");
	for (i = 0; i < vf_tr_len; i++) fprintf(vf_out, "%s%d", i ? "," : "", vf_tr_choice[i]);
	fprintf(vf_out, "]");
	if (st == VF_ST_FATAL) {
		fprintf(vf_out, ",\"msg\":\"%s\",\"tok\":%d}\n", vf_fatal_msg, vf_tok_in_exec);
	} else {
		fprintf(vf_out, ",\"what\":\"%s\",\"tok\":%d,\"exp_rule\":%d,\"exp_len\":%d,\"obs_rule\":%d,\"obs_len\":%d,"
			"\"exp_sc\":%d,\"obs_sc\":%d,\"exp_line\":%d,\"obs_line\":%d,\"exp_text\":",
			vf_mm.what, vf_mm.tokidx, vf_mm.exp_rule, vf_mm.exp_len, vf_mm.obs_rule, vf_mm.obs_len,
			vf_mm.exp_sc, vf_mm.obs_sc, vf_mm.exp_line, vf_mm.obs_line);
		vf_hex(vf_out, vf_mm.exp_text, vf_mm.exp_tl);
		fprintf(vf_out, ",\"obs_text\":");
		vf_hex(vf_out, vf_mm.obs_text, vf_mm.obs_tl);
		fprintf(vf_out, "}\n");
	}
}

static void vf_run_one(void)
{
	int st, r;
	vf_fresh();
	vf_in_pos = 0; vf_steps = 0; vf_tok_in_exec = 0; vf_nrules_in_exec = 0;
	vf_cur_sc = vf_g->sc;
	vf_ref_init(&vf_R, vf_in, vf_in_len, vf_g->sc);
	st = setjmp(vf_jmp);
	if (st == 0) {
		vf_in_yylex = 1;
		do { r = VF_LEX(); } while (r != 0);
		vf_in_yylex = 0;
		if (vf_R.head < vf_R.tail) {
			vf_ref_match(&vf_R);
			vf_mm.what = "yylex returned 0 with input left"; vf_mm.tokidx = vf_tok_in_exec;
			vf_mm.exp_rule = vf_R.rule; vf_mm.exp_len = vf_R.total; vf_mm.obs_rule = 0; vf_mm.obs_len = 0;
			vf_mm.exp_tl = vf_mm.obs_tl = 0;
			vf_report(VF_ST_MISMATCH);
		}
	} else {
		vf_in_yylex = 0;
		vf_report(st - 1);
	}
	if (vf_tok_in_exec >= 2 && vf_nrules_in_exec >= 2) vf_n_nontrivial++;
}

static void vf_enum_inputs(void)
{
	unsigned char buf[16];
	int idx[16], len, i, k;
	const unsigned char *p;
	/* all strings of length 0..maxlen over the group's alphabet */
	for (len = 0; len <= vf_g->maxlen; len++) {
		for (i = 0; i < len; i++) idx[i] = 0;
		for (;;) {
			for (i = 0; i < len; i++) buf[i] = vf_g->alpha[idx[i]];
			vf_in = buf; vf_in_len = len; vf_n_inputs++;
			vf_explore(vf_run_one);
			for (i = len - 1; i >= 0; i--) {
				if (++idx[i] < vf_g->nalpha) break;
				idx[i] = 0;
			}
			if (i < 0) break;
		}
	}
	/* explicit extra strings (transition cover etc.) */
	p = vf_g->extra;
	for (k = 0; k < vf_g->nextra; k++) {
		int l = p[0] | (p[1] << 8);
		vf_in = p + 2; vf_in_len = l; vf_n_inputs++;
		vf_explore(vf_run_one);
		p += 2 + l;
	}
}

int main(int argc, char **argv)
{
	int gi, ng = (int)(sizeof vf_groups / sizeof vf_groups[0]), i, only = -1;
	int ndfa = (int)(sizeof vf_dfas / sizeof vf_dfas[0]);
	vf_out = stdout;
	for (i = 1; i < argc; i++) {
		if (!strcmp(argv[i], "-o") && i + 1 < argc) vf_out = fopen(argv[++i], "w");
		else if (!strcmp(argv[i], "-g") && i + 1 < argc) only = atoi(argv[++i]);
		else if (!strcmp(argv[i], "-H") && i + 1 < argc) vf_horizon = atol(argv[++i]);
	}
	if (!vf_out) return 5;
	vf_dfa_edge_base = (int *)calloc((size_t)ndfa + 1, sizeof(int));
	for (i = 0; i < ndfa; i++) {
		vf_dfa_edge_base[i] = (int)vf_edges_total;
		vf_edges_total += (long)vf_dfas[i].nst * VF_NCLS;
		vf_states_total += vf_dfas[i].nst;
		{ long e; for (e = 0; e < (long)vf_dfas[i].nst * VF_NCLS; e++) if (vf_dfas[i].tr[e] >= 0) vf_edges_live++; }
	}
	vf_edge_seen = (unsigned char *)calloc((size_t)vf_edges_total + 1, 1);
	for (i = 0; i < VF_NKINDS; i++) vf_budget[i] = VF_BUDGET_DEFAULT;
#ifdef VF_BUDGET_READ
	vf_budget[VF_K_READ] = VF_BUDGET_READ;
#endif
	vf_budget_total = VF_BUDGET_TOTAL;
	for (gi = 0; gi < ng; gi++) {
		if (only >= 0 && vf_groups[gi].id != only) continue;
		vf_g = &vf_groups[gi];
		vf_reported_in_group = 0;
		vf_enum_inputs();
	}
	vf_finish();
	fprintf(vf_out, "{\"summary\":1,\"groups\":%d,\"inputs\":%ld,\"executions\":%ld,\"tokens\":%ld,\"mismatches\":%ld,"
		"\"fatals\":%ld,\"horizons\":%ld,\"nontrivial\":%ld,\"reads\":%ld,\"eof_actions\":%ld,"
		"\"ref_states\":%ld,\"ref_edges\":%ld,\"ref_edges_walked\":%ld,\"choice_points\":%ld,\"overflow\":%d}\n",
		ng, vf_n_inputs, vf_executions, vf_n_tokens, vf_n_mismatch, vf_n_fatal, vf_n_horizon, vf_n_nontrivial,
		vf_n_reads, vf_n_eof, vf_states_total, vf_edges_live, vf_edges_seen_n, vf_choice_points, vf_overflow);
	fclose(vf_out);
	return 0;
}
#endif
