/* vf_tbldriver.h - section 3 of a scanner built with %option tables-file (C15).
 *
 *   s.exe scan    <tables file> <input hex>     load, scan, print "rule:len ..." and the load/destroy/ledger status
 *   s.exe trunc   <tables file>                 for every length L < size (and a wrong magic): load from the first L bytes
 *   s.exe afail   <tables file>                 the k-th allocation request during the load fails, for every k
 *   s.exe mutate  <tables file>                 for every offset x {low bit flipped, high bit flipped}: load (a --tables-verify
 *                                               scanner compares with its in-code tables); one forked child per variant
 * Every attempt prints one line; the fatal-error hook is caught with longjmp.
 */
#ifndef VF_TBLDRIVER_H
#define VF_TBLDRIVER_H
#include <sys/wait.h>
#include <unistd.h>
#include "ledger.h"

static jmp_buf vf_jmp;
static int vf_armed;
static char vf_fatal_msg[200];
static const unsigned char *vf_in; static int vf_in_len, vf_in_pos;

static void vf_fatal(const char *msg)
{
	strncpy(vf_fatal_msg, msg ? msg : "", sizeof vf_fatal_msg - 1);
	if (vf_armed) longjmp(vf_jmp, 1);
	fprintf(stdout, "FATAL-OUTSIDE %s\n", vf_fatal_msg);
	exit(3);
}
static int vf_read(char *buf, size_t max_size)
{
	int n = vf_in_len - vf_in_pos;
	if ((size_t)n > max_size) n = (int)max_size;
	if (n > 0) memcpy(buf, vf_in + vf_in_pos, (size_t)n);
	vf_in_pos += n;
	return n;
}
static int vf_choose(int n, int kind) { (void)n; (void)kind; return 0; }
static void vf_body(void) { }
static void vf_act(int act, const char *text, long leng, int start, int lineno, int atbol)
{
	(void)text; (void)start; (void)atbol;
	printf("%d:%ld:%d ", act, leng, lineno);
}

#if defined(VF_API_R)
static yyscan_t vf_scanner;
#define VF_S0 vf_scanner
#define VF_S1 , vf_scanner
#else
#define VF_S0
#define VF_S1
#endif

static unsigned char *vf_file; static long vf_file_len;

static void vf_slurp(const char *path)
{
	FILE *f = fopen(path, "rb");
	if (!f) { printf("cannot open %s\n", path); exit(5); }
	fseek(f, 0, SEEK_END); vf_file_len = ftell(f); fseek(f, 0, SEEK_SET);
	vf_file = (unsigned char *)malloc((size_t)vf_file_len + 1);
	if (fread(vf_file, 1, (size_t)vf_file_len, f) != (size_t)vf_file_len) exit(5);
	fclose(f);
}

/* one load attempt from a memory image: 'S' loaded (or verified), 'F' error return, 'X' fatal-error hook */
static int vf_try_load(const unsigned char *img, long len)
{
	FILE *fp;
	int rc, res;
	static unsigned char empty[1];
	fp = fmemopen(len ? (void *)img : (void *)empty, len ? (size_t)len : 1, "rb");
	if (!fp) { printf("fmemopen failed\n"); exit(5); }
	if (!len) { /* an empty stream */ fseek(fp, 0, SEEK_END); }
	vf_fatal_msg[0] = 0;
	if (setjmp(vf_jmp) == 0) {
		vf_armed = 1;
		rc = yytables_fload(fp VF_S1);
		vf_armed = 0;
		res = rc == 0 ? 'S' : 'F';
	} else {
		vf_armed = 0;
		res = 'X';
	}
	fclose(fp);
	return res;
}

static const char *vf_unload_and_check(void)
{
	static char msg[200];
	msg[0] = 0;
	vf_ledger_msg[0] = 0;
	if (setjmp(vf_jmp) == 0) {
		vf_armed = 1;
		yytables_destroy(VF_S0);
		vf_armed = 0;
	} else {
		vf_armed = 0;
		snprintf(msg, sizeof msg, "fatal in yytables_destroy: %s", vf_fatal_msg);
		return msg;
	}
	return msg;
}

static int vf_hexval(int c) { return c <= '9' ? c - '0' : (c | 32) - 'a' + 10; }

int main(int argc, char **argv)
{
	long L, off;
	int k;
	if (argc < 3) return 2;
	setvbuf(stdout, 0, _IONBF, 0);
#if defined(VF_API_R)
	if (yylex_init(&vf_scanner)) return 6;
#endif
	vf_slurp(argv[2]);
	if (!strcmp(argv[1], "scan")) {
		static unsigned char in[4096];
		const char *h = argc > 3 ? argv[3] : "";
		int res, base_live;
		const char *m;
		for (vf_in_len = 0; h[0] && h[1] && vf_in_len < 4095; h += 2) in[vf_in_len++] = (unsigned char)(vf_hexval(h[0]) * 16 + vf_hexval(h[1]));
		vf_in = in;
		base_live = vf_nlive;
		res = vf_try_load(vf_file, vf_file_len);
		printf("LOAD %c %s\n", res, vf_fatal_msg);
		if (res == 'S') {
			printf("TOKENS ");
			if (setjmp(vf_jmp) == 0) { vf_armed = 1; while (yylex(VF_S0)) { } vf_armed = 0; printf("\n"); }
			else { vf_armed = 0; printf("\nSCANFATAL %s\n", vf_fatal_msg); }
		}
#if defined(VF_API_R)
		m = vf_unload_and_check();
		yylex_destroy(vf_scanner);
#else
		yylex_destroy();
		m = vf_unload_and_check();
#endif
		vf_ledger_check_empty();
		printf("UNLOAD %s|%s live_before=%d errors=%ld\n", m, vf_ledger_msg, base_live, vf_ledger_errors);
		return 0;
	}
	vf_ledger_baseline = vf_nlive;      /* a reentrant scanner object stays alive during the sweeps */
	if (!strcmp(argv[1], "trunc")) {
		/* every proper prefix of the file, then the whole file with each byte of the magic number damaged */
		for (L = 0; L < vf_file_len; L++) {
			int res;
			printf("T %ld ", L);
			res = vf_try_load(vf_file, L);
			vf_unload_and_check();
			vf_ledger_check_empty();
			printf("%c %s|%s|%ld\n", res, vf_fatal_msg, vf_ledger_msg, vf_ledger_errors);
			vf_ledger_msg[0] = 0;
		}
		for (k = 0; k < 4; k++) {
			int res;
			unsigned char *img = (unsigned char *)malloc((size_t)vf_file_len);
			memcpy(img, vf_file, (size_t)vf_file_len);
			img[k] ^= 0x10;
			printf("G %d ", k);
			res = vf_try_load(img, vf_file_len);
			vf_unload_and_check();
			vf_ledger_check_empty();
			printf("%c %s|%s|%ld\n", res, vf_fatal_msg, vf_ledger_msg, vf_ledger_errors);
			vf_ledger_msg[0] = 0;
			free(img);
		}
		{
			int res;
			printf("W %ld ", vf_file_len);
			res = vf_try_load(vf_file, vf_file_len);
			vf_unload_and_check();
			vf_ledger_check_empty();
			printf("%c %s|%s|%ld\n", res, vf_fatal_msg, vf_ledger_msg, vf_ledger_errors);
		}
		return 0;
	}
	if (!strcmp(argv[1], "afail")) {
		/* the k-th allocation request made while loading fails, for every k: yytables_fload must fail (error return or the
		 * fatal-error hook), use nothing of the failed request, and leave nothing allocated after yytables_destroy */
		long n, kk;
		int res;
		vf_ledger_reset_counts(); vf_alloc_fail_at = 0;
		res = vf_try_load(vf_file, vf_file_len);
		n = vf_alloc_count;
		vf_unload_and_check(); vf_ledger_check_empty();
		printf("A 0 %c requests=%ld %s|%s|%ld\n", res, n, vf_fatal_msg, vf_ledger_msg, vf_ledger_errors);
		vf_ledger_msg[0] = 0;
		for (kk = 1; kk <= n; kk++) {
			vf_ledger_reset_counts(); vf_alloc_fail_at = kk;
			res = vf_try_load(vf_file, vf_file_len);
			vf_alloc_fail_at = 0;
			vf_unload_and_check(); vf_ledger_check_empty();
			printf("A %ld %c %s|%s|%ld\n", kk, res, vf_fatal_msg, vf_ledger_msg, vf_ledger_errors);
			vf_ledger_msg[0] = 0;
		}
		/* and afterwards the scanner still loads */
		vf_ledger_reset_counts();
		res = vf_try_load(vf_file, vf_file_len);
		vf_unload_and_check(); vf_ledger_check_empty();
		printf("A end %c %s|%s|%ld\n", res, vf_fatal_msg, vf_ledger_msg, vf_ledger_errors);
		return 0;
	}
	if (!strcmp(argv[1], "mutate")) {
		static const unsigned char masks[] = { 0x01, 0x80 };
		for (off = 0; off < vf_file_len; off++) {
			for (k = 0; k < 2; k++) {
				int pfd[2], status, res = 'C';
				pid_t pid;
				char c = 0;
				if (pipe(pfd)) return 7;
				pid = fork();
				if (pid == 0) {
					unsigned char *img = (unsigned char *)malloc((size_t)vf_file_len);
					char r;
					close(pfd[0]);
					alarm(10);
					memcpy(img, vf_file, (size_t)vf_file_len);
					img[off] ^= masks[k];
					r = (char)vf_try_load(img, vf_file_len);
					if (write(pfd[1], &r, 1) != 1) _exit(9);
					_exit(0);
				}
				close(pfd[1]);
				if (read(pfd[0], &c, 1) == 1) res = c;
				close(pfd[0]);
				waitpid(pid, &status, 0);
				if (!(WIFEXITED(status) && WEXITSTATUS(status) == 0) && res != 'C') res = 'c';   /* answered, then died */
				printf("M %ld %d %c\n", off, masks[k], res);
			}
		}
		return 0;
	}
	return 2;
}
#endif
