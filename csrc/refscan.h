/* refscan.h - the reference scanner model (deliberately boring).
 *
 * Knows nothing about flex's tables: it walks the reference DFAs that
 * refsem.py built from the pattern ASTs, remembers every accepting position,
 * and keeps the unread input as a plain array with room in front for
 * push-back.  Every rule cites the manual (see DESIGN.md section 1.2).
 */
#ifndef VF_REFSCAN_H
#define VF_REFSCAN_H

#include "reftypes.h"
#define VF_MAXTOK 2048
#define VF_FRONT 512
#define VF_MAXCAND 256

typedef struct {
	unsigned char *buf; int cap, head, tail;
	int sc, bol, lineno;
	unsigned char more[VF_MAXTOK]; int more_len;
	/* result of vf_ref_match */
	int rule, total;
	int nsplit; short split[VF_MAXTOK + 1];
	/* committed token */
	unsigned char text[2 * VF_MAXTOK]; int text_len;
	/* candidate list for yyreject(): sorted by (-total, rule) */
	int ncand; short cand_rule[VF_MAXCAND], cand_total[VF_MAXCAND];
	int cand_idx, rejecting;
	int sv_bol, sv_lineno, sv_seg;       /* to undo a commit when the action rejects */
	/* start-condition stack */
	int stack[256]; int sp;
} vf_ref;

static void vf_ref_init(vf_ref *R, const unsigned char *in, int len, int sc)
{
	if (R->cap < len + VF_FRONT + 8) {
		free(R->buf);
		R->cap = len + VF_FRONT + 8;
		R->buf = (unsigned char *)malloc((size_t)R->cap);
	}
	R->head = VF_FRONT;
	R->tail = VF_FRONT + len;
	if (len)
		memcpy(R->buf + R->head, in, (size_t)len);
	R->sc = sc; R->bol = 1; R->lineno = 1; R->more_len = 0;
	R->rule = 0; R->total = 0; R->nsplit = 0; R->text_len = 0; R->ncand = 0;
	R->cand_idx = 0; R->rejecting = 0; R->sp = 0;
}

/* append bytes of a further source (yywrap continuing, new yyin) */
static void vf_ref_append(vf_ref *R, const unsigned char *in, int len)
{
	if (R->tail + len + 8 > R->cap) {
		R->cap = R->tail + len + 8 + 256;
		R->buf = (unsigned char *)realloc(R->buf, (size_t)R->cap);
	}
	memcpy(R->buf + R->tail, in, (size_t)len);
	R->tail += len;
}

static int vf_dfa_accepts(const vf_dfa *d, const unsigned char *s, int n)
{
	int q = 0, i;
	for (i = 0; i < n; i++) {
		q = d->tr[q * VF_NCLS + vf_cls[s[i]]];
		if (q < 0) return 0;
	}
	return d->ao[q + 1] > d->ao[q];
}

/* valid head lengths k for rule r on the matched text s[0..total) */
static void vf_ref_splits(vf_ref *R, int r, const unsigned char *s, int total, short *out, int *nout)
{
	int k, n = 0;
	if (vf_rules[r].trail < 0) {
		out[0] = (short)total; *nout = 1; return;
	}
	for (k = 0; k <= total; k++)
		if (vf_dfa_accepts(&vf_dfas[vf_rules[r].head], s, k) &&
		    vf_dfa_accepts(&vf_dfas[vf_rules[r].trail], s + k, total - k))
			out[n++] = (short)k;
	*nout = n;
	(void)R;
}

/* Select the token at the head of the stream.  Returns 0 at end of input.
 * Fills rule/total/split and the full candidate list. */
static int vf_ref_match(vf_ref *R)
{
	const vf_dfa *d = &vf_dfas[vf_start[R->sc][R->bol ? 1 : 0]];
	const unsigned char *s = R->buf + R->head;
	int avail = R->tail - R->head, q = 0, i, j, best = -1, bestrule = 0;
	R->ncand = 0;
	if (avail <= 0)
		return 0;
	for (i = 0; i < avail; i++) {
		q = d->tr[q * VF_NCLS + vf_cls[s[i]]];
		if (q < 0) break;
		if (d->ao[q + 1] > d->ao[q]) {
			best = i + 1;
			bestrule = d->al[d->ao[q]];
			for (j = d->ao[q]; j < d->ao[q + 1] && R->ncand < VF_MAXCAND; j++) {
				R->cand_rule[R->ncand] = d->al[j];
				R->cand_total[R->ncand] = (short)(i + 1);
				R->ncand++;
			}
		}
	}
	/* order candidates by decreasing length (they were found increasing), rule ascending within a length */
	for (i = 0, j = R->ncand - 1; i < j; i++, j--) {
		short t;
		t = R->cand_rule[i]; R->cand_rule[i] = R->cand_rule[j]; R->cand_rule[j] = t;
		t = R->cand_total[i]; R->cand_total[i] = R->cand_total[j]; R->cand_total[j] = t;
	}
	for (i = 0; i < R->ncand; ) {
		int e = i, a, b;
		while (e < R->ncand && R->cand_total[e] == R->cand_total[i]) e++;
		for (a = i, b = e - 1; a < b; a++, b--) {
			short t = R->cand_rule[a]; R->cand_rule[a] = R->cand_rule[b]; R->cand_rule[b] = t;
		}
		i = e;
	}
	R->cand_idx = 0;
	if (best < 0) {           /* default rule: one character */
		R->rule = VF_NRULES + 1;
		R->total = 1;
		R->split[0] = 1; R->nsplit = 1;
		return 1;
	}
	R->rule = bestrule;
	R->total = best;
	vf_ref_splits(R, bestrule, s, best, R->split, &R->nsplit);
	return 1;
}

/* After yyreject(): the next-best (rule, length) pair at the same position;
 * when every rule has rejected, the default rule takes one character. */
static void vf_ref_next_candidate(vf_ref *R)
{
	const unsigned char *s = R->buf + R->head;
	R->cand_idx++;
	R->rejecting = 0;
	if (R->cand_idx >= R->ncand) {
		R->rule = VF_NRULES + 1; R->total = 1; R->split[0] = 1; R->nsplit = 1;
		return;
	}
	R->rule = R->cand_rule[R->cand_idx];
	R->total = R->cand_total[R->cand_idx];
	vf_ref_splits(R, R->rule, s, R->total, R->split, &R->nsplit);
}

static int vf_ref_split_ok(const vf_ref *R, int leng)
{
	int i;
	for (i = 0; i < R->nsplit; i++)
		if (R->split[i] == leng) return 1;
	return 0;
}

/* Consume 'leng' bytes as the text of the selected token. */
static void vf_ref_commit(vf_ref *R, int leng)
{
	int i;
	R->sv_bol = R->bol; R->sv_lineno = R->lineno; R->sv_seg = leng;
	memcpy(R->text, R->more, (size_t)R->more_len);
	memcpy(R->text + R->more_len, R->buf + R->head, (size_t)leng);
	R->text_len = R->more_len + leng;
	R->more_len = 0;
	for (i = 0; i < leng; i++)
		if (R->buf[R->head + i] == '\n') R->lineno++;
	if (leng > 0)
		R->bol = (R->buf[R->head + leng - 1] == '\n');
	R->head += leng;
}

/* ---- action operations ("Actions", "Miscellaneous Macros") ---- */

/* yyless(n): keep the first n characters of yytext, return the rest */
static void vf_ref_less(vf_ref *R, int n)
{
	int back = R->text_len - n, i;
	for (i = 0; i < back; i++) {
		unsigned char c = R->text[R->text_len - 1 - i];
		R->buf[--R->head] = c;
		if (c == '\n') R->lineno--;
	}
	R->text_len = n;
}

/* yyunput(c): c becomes the next character scanned */
static void vf_ref_unput(vf_ref *R, int c)
{
	R->buf[--R->head] = (unsigned char)c;
	if (c == '\n') R->lineno--;
}

/* yyinput(): next character, or -1 at end of input */
static int vf_ref_input(vf_ref *R)
{
	int c;
	if (R->head >= R->tail) return -1;
	c = R->buf[R->head++];
	if (c == '\n') R->lineno++;
	R->bol = (c == '\n');
	return c;
}

/* yyreject(): the token is given back, the next-best alternative is tried */
static void vf_ref_reject(vf_ref *R)
{
	R->head -= R->sv_seg;
	R->bol = R->sv_bol;
	R->lineno = R->sv_lineno;
	R->rejecting = 1;
}

/* yymore(): the next token is appended to the current yytext */
static void vf_ref_more(vf_ref *R)
{
	memcpy(R->more, R->text, (size_t)R->text_len);
	R->more_len = R->text_len;
}
#endif
