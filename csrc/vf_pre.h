/* vf_pre.h - included in section 1 of every generated harness scanner.
 * Declares the hooks the scanner calls and hides API-flavour differences.
 * Flavour is chosen on the compiler command line:
 *   -DVF_API_NR   C, non-reentrant      -DVF_API_R    C, %option reentrant
 *   -DVF_API_C99  %option emit="c99"    -DVF_API_CXX  C++ class
 */
#ifndef VF_PRE_H
#define VF_PRE_H
#include <stdio.h>
#include <stdlib.h>
#include <string.h>
#include <errno.h>
#include <setjmp.h>
#include <stddef.h>

#if defined(VF_API_R) || defined(VF_API_C99)
#define VF_HAS_SCANNER 1
#define VF_PROTO_LAST , void *yyscanner
#define VF_CALL_LAST , yyscanner
#else
#define VF_HAS_SCANNER 0
#define VF_PROTO_LAST
#define VF_CALL_LAST
#endif

/* called from %option pre-action with values only visible inside yylex() */
static void vf_act(int act, const char *text, long leng, int start, int lineno, int atbol);
/* noyyread / YY_INPUT replacement */
static int vf_read(char *buf, size_t max_size);
/* fatal-error hook: never returns */
static void vf_fatal(const char *msg) __attribute__((noreturn));
/* environment choice point */
static int vf_choose(int n, int kind);
/* action operations: the action text (emitted per harness) asks which operation
 * to perform, performs it with the scanner's own macro, and reports back so the
 * reference model follows and the immediate observables are compared */
static int vf_op(long leng);
static int vf_arg_less(long leng);
static int vf_arg_unput(void);
static int vf_arg_sc(void);
static void vf_did_less(int n, const char *text, long leng, int lineno);
static void vf_did_unput(int c, const char *text, long leng, int lineno);
static void vf_did_input(int c, int lineno);
static void vf_did_more(void);
static void vf_will_reject(void);
static void vf_did_begin(int sc, int now);
static void vf_did_push(int sc, int now);
static void vf_will_pop(void);
static void vf_did_pop(int now);
static void vf_did_top(int top);
static void vf_did_setbol(int v, int now);
static void vf_did_return(void);

#if !defined(VF_KEEP_ECHO) && !defined(VF_API_C99)
#define yyecho() do { } while (0)
#endif

#if defined(VF_API_NR) || defined(VF_API_R) || defined(VF_API_CXX)
#ifndef VF_DEFAULT_INPUT
#define YY_INPUT(buf, result, max_size) do { (result) = vf_read((buf), (size_t)(max_size)); } while (0)
#endif
#define YY_FATAL_ERROR(msg) vf_fatal(msg)
#endif

#endif
