/* vf_pre.h - included in section 1 of every generated harness scanner.
 * Declares the hooks the scanner calls and hides API-flavour differences.
 * Flavour is chosen on the compiler command line:
 *   -DVF_API_NR   C, non-reentrant      -DVF_API_R    C, %option reentrant
 *   -DVF_API_C99  %option emit="c99"    -DVF_API_CXX  C++ class
 */
#ifndef VF_PRE_H
#define VF_PRE_H
#include <stdio.h>
#include <stdlib.h>
#include <string.h>
#include <errno.h>
#include <setjmp.h>
#include <stddef.h>

#if defined(VF_API_R) || defined(VF_API_C99)
#define VF_HAS_SCANNER 1
#define VF_PROTO_LAST , void *yyscanner
#define VF_CALL_LAST , yyscanner
#else
#define VF_HAS_SCANNER 0
#define VF_PROTO_LAST
#define VF_CALL_LAST
#endif

/* called from %option pre-action with values only visible inside yylex() */
static void vf_act(int act, const char *text, long leng, int start, int lineno, int atbol);
/* noyyread / YY_INPUT replacement */
static int vf_read(char *buf, size_t max_size);
/* fatal-error hook: never returns */
static void vf_fatal(const char *msg) __attribute__((noreturn));
/* environment choice point */
static int vf_choose(int n, int kind);
/* action operations: the action text (emitted per harness) asks which operation
 * to perform, performs it with the scanner's own macro, and reports back so the
 * reference model follows and the immediate observables are compared */
static int vf_op(long leng);
static int vf_arg_less(long leng);
static int vf_arg_unput(void);
static int vf_arg_sc(void);
static void vf_did_less(int n, const char *text, long leng, int lineno);
#ifdef VF_LESS3
#if defined(VF_API_NR)
static void vf_less3(int k);
#else
static void vf_less3(int k, void *yyscanner);
#endif
#endif
static void vf_did_unput(int c, const char *text, long leng, int lineno);
static void vf_did_input(int c, int lineno);
static void vf_did_more(void);
static void vf_will_reject(void);
static void vf_did_begin(int sc, int now);
static void vf_did_push(int sc, int now);
static void vf_will_pop(void);
static void vf_did_pop(int now);
static void vf_did_top(int top);
static void vf_did_setbol(int v, int now);
static void vf_did_return(void);
static int vf_arg_line(void);
static void vf_did_setline(int v, int now);

/* every action body of a harness scanner starts with vf_body(); the default rule's ECHO counts as its body */
static void vf_body(void);
#if !defined(VF_KEEP_ECHO) && !defined(VF_API_C99)
#define yyecho() vf_body()
#endif

#ifdef VF_FAKE_FILES
/* buffer-history harness: sources are identified by fake FILE pointers that are never dereferenced;
 * the only libc calls flex makes on them (isatty(fileno(f)) when a buffer is initialised) are answered here */
#include <unistd.h>
#define fileno(f) 0
#define isatty(fd) 0
static int vf_read_from(FILE *f, char *buf, size_t max_size);
static void vf_eof_body(int id);
static int vf_eof_choice(void);
static void vf_eof_did_pop(int has_current);
static void vf_eof_switch_saved(void);
static int vf_eof_new_yyin(void);
static int vf_action_push(void);
static int vf_action_input(void);
static void vf_did_input_b(int ch, int lineno);
static int vf_action_src(void);
static void vf_action_pushed(void);
static char vf_fake_file[];
#endif

#if defined(VF_API_NR) || defined(VF_API_R)
#if defined(VF_FAKE_FILES)
#define YY_INPUT(buf, result, max_size) do { (result) = vf_read_from(yyin, (buf), (size_t)(max_size)); } while (0)
#elif !defined(VF_DEFAULT_INPUT)
#define YY_INPUT(buf, result, max_size) do { (result) = vf_read((buf), (size_t)(max_size)); } while (0)
#endif
#define YY_FATAL_ERROR(msg) vf_fatal(msg)
#endif

#if defined(VF_API_C99)
/* c99 back end: %option noyyread noyypanic, the user supplies both with the skeleton's prototypes */
struct yyguts_t;
#ifndef VF_DEFAULT_INPUT
static int yyread(char *buf, size_t max_size, struct yyguts_t *yyscanner);
#endif
static void yypanic(const char *msg, struct yyguts_t *yyscanner) __attribute__((noreturn));
#ifdef VF_LEDGER
/* %option noyyalloc noyyrealloc noyyfree: the c99 skeleton declares nothing, the user does */
void *yyalloc(size_t size, struct yyguts_t *yyscanner);
void *yyrealloc(void *ptr, size_t size, struct yyguts_t *yyscanner);
void yyfree(void *ptr, struct yyguts_t *yyscanner);
#endif
#endif

#ifdef VF_DEFAULT_INPUT
/* The scanner's own yyread() is kept; the libc calls it makes are answered by the
 * harness (macro interposition: the generated file is compiled in this translation unit).
 * VF_DEFAULT_INPUT = 1: stdio fread path, 2: interactive getc path (isatty true), 3: read(2) under -Cr */
#include <unistd.h>
static size_t vf_fread(void *p, size_t sz, size_t n, FILE *f);
static int vf_getc(FILE *f);
static int vf_ferror(FILE *f);
static void vf_clearerr(FILE *f);
static int vf_isatty(int fd);
static long vf_sysread(int fd, void *buf, size_t n);
#undef getc
#define fread(p, sz, n, f) vf_fread((p), (sz), (n), (f))
#define getc(f) vf_getc(f)
#define ferror(f) vf_ferror(f)
#define clearerr(f) vf_clearerr(f)
#define isatty(fd) vf_isatty(fd)
#define read(fd, b, n) vf_sysread((fd), (b), (n))
#endif

#endif
