/* ledger.h - replacement for yyalloc/yyrealloc/yyfree (%option noyyalloc noyyrealloc noyyfree).
 *
 * Keeps the set of live blocks, so that at the end of an execution (after the driver has deleted
 * its own non-current buffers and called yylex_destroy) the set must be empty, and every pointer
 * given to yyfree/yyrealloc must be a live block.  Each block is allocated with exactly the size
 * asked for (so that AddressSanitizer sees a one-byte overrun), and the k-th allocation request
 * of an execution can be made to fail (C14).
 */
#ifndef VF_LEDGER_H
#define VF_LEDGER_H

#define VF_LEDGER_MAX 512
static void *vf_live[VF_LEDGER_MAX];
static size_t vf_live_size[VF_LEDGER_MAX];
static int vf_nlive;
static long vf_alloc_count;            /* allocation requests (yyalloc + growing yyrealloc) in this execution */
static long vf_alloc_fail_at;          /* 0: never; k: the k-th request returns NULL */
static long vf_ledger_errors, vf_ledger_allocs_total, vf_ledger_checks, vf_ledger_leaks;
static char vf_ledger_msg[160];

static int vf_ledger_trace(void) { static int t = -1; if (t < 0) t = getenv("VF_LEDGER_TRACE") != 0; return t; }
static void vf_ledger_reset_counts(void) { vf_alloc_count = 0; }

static int vf_ledger_find(void *p)
{
	int i;
	for (i = 0; i < vf_nlive; i++) if (vf_live[i] == p) return i;
	return -1;
}

static void vf_ledger_error(const char *what, void *p)
{
	vf_ledger_errors++;
	if (!vf_ledger_msg[0]) snprintf(vf_ledger_msg, sizeof vf_ledger_msg, "%s (%p)", what, p);
}

static void *vf_ledger_alloc(size_t n)
{
	void *p;
	vf_alloc_count++;
	vf_ledger_allocs_total++;
	if (vf_alloc_fail_at && vf_alloc_count == vf_alloc_fail_at) return 0;
	p = malloc(n ? n : 1);
	if (vf_ledger_trace()) fprintf(stderr, "alloc #%ld %p %lu\n", vf_alloc_count, p, (unsigned long)n);
	if (p && vf_nlive < VF_LEDGER_MAX) {
		memset(p, 0xA5, n);              /* fresh memory has no particular content */
		vf_live[vf_nlive] = p; vf_live_size[vf_nlive] = n; vf_nlive++;
	}
	return p;
}

static void *vf_ledger_realloc(void *old, size_t n)
{
	int i;
	void *p;
	if (!old) return vf_ledger_alloc(n);
	i = vf_ledger_find(old);
	if (i < 0) { vf_ledger_error("yyrealloc of a pointer that did not come from yyalloc/yyrealloc", old); return realloc(old, n); }
	vf_alloc_count++;
	vf_ledger_allocs_total++;
	if (vf_alloc_fail_at && vf_alloc_count == vf_alloc_fail_at) return 0;   /* the old block stays valid, as with realloc */
	/* always move, so that a stale pointer into the old block is caught */
	p = malloc(n ? n : 1);
	if (!p) return 0;
	memset(p, 0xA5, n);
	memcpy(p, old, vf_live_size[i] < n ? vf_live_size[i] : n);
	free(old);
	vf_live[i] = p; vf_live_size[i] = n;
	return p;
}

static void vf_ledger_free(void *p)
{
	int i;
	if (!p) return;
	i = vf_ledger_find(p);
	if (vf_ledger_trace()) fprintf(stderr, "free %p\n", p);
	if (i < 0) { vf_ledger_error("yyfree of a pointer that is not a live yyalloc/yyrealloc block (double free or foreign pointer)", p); return; }
	free(p);
	vf_live[i] = vf_live[vf_nlive - 1]; vf_live_size[i] = vf_live_size[vf_nlive - 1]; vf_nlive--;
}

/* after the scanner has been destroyed: nothing may be left (vf_ledger_baseline blocks belong to a scanner object that is still alive) */
static int vf_ledger_baseline;
static void vf_ledger_check_empty(void)
{
	int i;
	vf_ledger_checks++;
	if (vf_nlive > vf_ledger_baseline) {
		vf_ledger_leaks++;
		if (!vf_ledger_msg[0]) snprintf(vf_ledger_msg, sizeof vf_ledger_msg, "%d block(s) still allocated after the release calls (last: %lu bytes)",
			vf_nlive - vf_ledger_baseline, (unsigned long)vf_live_size[vf_nlive - 1]);
		for (i = vf_ledger_baseline; i < vf_nlive; i++) free(vf_live[i]);
		vf_nlive = vf_ledger_baseline;
	}
}

/* drop the bookkeeping of an execution that was abandoned by longjmp (fatal error, mismatch): its blocks are released */
static void vf_ledger_abandon(void)
{
	int i;
	for (i = 0; i < vf_nlive; i++) free(vf_live[i]);
	vf_nlive = 0;
}

#if defined(VF_API_NR) || defined(VF_API_CXX)
void *yyalloc(yy_size_t n) { return vf_ledger_alloc((size_t)n); }
void *yyrealloc(void *p, yy_size_t n) { return vf_ledger_realloc(p, (size_t)n); }
void yyfree(void *p) { vf_ledger_free(p); }
#elif defined(VF_API_R)
void *yyalloc(yy_size_t n, yyscan_t s) { (void)s; return vf_ledger_alloc((size_t)n); }
void *yyrealloc(void *p, yy_size_t n, yyscan_t s) { (void)s; return vf_ledger_realloc(p, (size_t)n); }
void yyfree(void *p, yyscan_t s) { (void)s; vf_ledger_free(p); }
#else
void *yyalloc(size_t n, yyscan_t s) { (void)s; return vf_ledger_alloc(n); }
void *yyrealloc(void *p, size_t n, yyscan_t s) { (void)s; return vf_ledger_realloc(p, n); }
void yyfree(void *p, yyscan_t s) { (void)s; vf_ledger_free(p); }
#endif
#endif
